//! C09 / C08: ValidationReport::into_snapshot (SnapshotBuilder) vs the Coq model (coq/C09, coq/C08).
//!
//! Streams (env C09_STREAM):
//!   compose  whole pipeline, composition classes            -> C09.Spec.check_case
//!   unsafe   whole pipeline, unsafe-VRP classes              -> C08.Spec.check_case08
//!   slurm    LocalExceptions::drop_origin / drop_router_key  -> C09.Spec.check_slurm
//!   blocks   rejected resources: finalize + keep_prefix      -> C09.Spec.check_blocks
//!
//! Input data reaches the private `PubPoint`s / rejected resources of a `ValidationReport`
//! either through the cfg(routinator_verif) hooks at the end of src/payload/validation.rs
//! (`verif_push_point`, `verif_reject`, `verif_keep_prefixes`) or, for points with
//! `"via":"processor"` and rejected entries with `"cert"`, through the real
//! `PubPointProcessor` (`process_ta`, `process_roa`, `process_router_cert`, `process_aspa`,
//! `commit`, `cancel`) using fixture objects of the rpki crate (harness/fixtures/c09).
use std::net::{IpAddr, Ipv4Addr, Ipv6Addr};
use std::panic::{catch_unwind, AssertUnwindSafe};
use std::sync::Arc;
use bytes::Bytes;
use routinator::config::{Config, FilterPolicy};
use routinator::engine::{CaCert, ProcessPubPoint, ProcessRun};
use routinator::metrics::{Metrics, TalMetrics};
use routinator::payload::{PayloadSnapshot, PublishInfo, ValidationReport};
use routinator::slurm::LocalExceptions;
use rpki::crypto::{KeyIdentifier, PublicKey, PublicKeyFormat, Signature, SignatureAlgorithm, Signer, SigningError};
use rpki::crypto::signer::{KeyError, SigningAlgorithm};
use rpki::repository::aspa::AspaBuilder;
use rpki::repository::cert::{Cert, KeyUsage, Overclaim, ResourceCert, TbsCert};
use rpki::repository::resources::{AsResources, IpBlocks, IpResources};
use rpki::repository::sigobj::SignedObjectBuilder;
use rpki::repository::resources::{AsBlock, AsBlocks, IpBlock};
use rpki::repository::resources::{Addr, AddressRange, Prefix as ResPrefix};
use rpki::repository::roa::{Roa, RoaBuilder, RoaIpAddress, RouteOriginAttestation};
use rpki::repository::tal::{Tal, TalInfo, TalUri};
use rpki::repository::x509::{Time, Validity};
use rpki::resources::addr::{MaxLenPrefix, Prefix};
use rpki::resources::asn::{Asn, SmallAsnSet};
use rpki::rtr::payload::{RouteOrigin, RouterKey};
use rpki::rtr::pdu::RouterKeyInfo;
use rpki::slurm::{
    Base64KeyInfo, BgpsecAssertion, BgpsecFilter, LocallyAddedAssertions, PrefixAssertion, PrefixFilter, SlurmFile,
    ValidationOutputFilters,
};
use rpki::uri;
use rv_harness::util::*;
use serde_json::{json, Value};

//------------ plain data helpers --------------------------------------------

fn u128_of(v: &Value) -> u128 {
    match v {
        Value::String(s) => s.parse().expect("u128"),
        Value::Number(n) => n.as_u64().expect("u64") as u128,
        _ => panic!("number expected, got {}", v),
    }
}
fn u64_of(v: &Value) -> u64 { u128_of(v) as u64 }
fn opt<'a>(v: &'a Value) -> Option<&'a Value> { if v.is_null() { None } else { Some(v) } }
fn arr(v: &Value) -> &[Value] { v.as_array().map(|a| a.as_slice()).unwrap_or(&[]) }
fn width(v4: bool) -> u32 { if v4 { 32 } else { 128 } }

/// [v4, addr, len] in the natural width of the family.
#[derive(Clone, Copy, Debug, PartialEq, Eq, Hash)]
struct Pfx { v4: bool, addr: u128, len: u8 }

impl Pfx {
    fn of(v: &Value) -> Pfx { Pfx { v4: v[0].as_bool().unwrap(), addr: u128_of(&v[1]), len: u64_of(&v[2]) as u8 } }
    fn json(self) -> Value { json!([self.v4, self.addr.to_string(), self.len]) }
    fn ip(self) -> IpAddr {
        if self.v4 { IpAddr::V4(Ipv4Addr::from(self.addr as u32)) } else { IpAddr::V6(Ipv6Addr::from(self.addr)) }
    }
    fn payload(self) -> Prefix { Prefix::new(self.ip(), self.len).expect("canonical prefix") }
    fn coq(self) -> String { format!("(Build_pfx {} {} {})", coq_bool(self.v4), self.addr, self.len) }
    fn size(self) -> u128 { let s = width(self.v4) - self.len as u32; if s >= 128 { 0 } else { 1u128 << s } }
    fn lo(self) -> u128 { self.addr }
    fn hi(self) -> u128 { self.addr.wrapping_add(self.size().wrapping_sub(1)) }
    fn of_payload(p: Prefix) -> Pfx {
        match p.addr() {
            IpAddr::V4(a) => Pfx { v4: true, addr: u32::from(a) as u128, len: p.len() },
            IpAddr::V6(a) => Pfx { v4: false, addr: u128::from(a), len: p.len() },
        }
    }
}

fn p4(a: [u8; 4], len: u8) -> Pfx { Pfx { v4: true, addr: u32::from_be_bytes(a) as u128, len } }
fn p6(s: &str, len: u8) -> Pfx { Pfx { v4: false, addr: u128::from(s.parse::<Ipv6Addr>().unwrap()), len } }

/// Address in the implementation's left-aligned 128 bit form.
fn addr_of(v4: bool, a: u128) -> Addr {
    if v4 { Addr::from(Ipv4Addr::from(a as u32)) } else { Addr::from(Ipv6Addr::from(a)) }
}

/// ["p", addr, len] | ["r", lo, hi]; the way the rpki decoder and string parsers build blocks:
/// a prefix via Prefix::new, a range with the maximum padded with ones (Addr::to_max).
fn ipblock_of(v4: bool, b: &Value) -> IpBlock {
    match b[0].as_str().unwrap() {
        "p" => IpBlock::Prefix(ResPrefix::new(addr_of(v4, u128_of(&b[1])), u64_of(&b[2]) as u8)),
        "r" => IpBlock::Range(AddressRange::new(
            addr_of(v4, u128_of(&b[1])), addr_of(v4, u128_of(&b[2])).to_max(width(v4) as u8))),
        x => panic!("block kind {}", x),
    }
}
fn coq_block(b: &Value) -> String {
    match b[0].as_str().unwrap() {
        "p" => format!("BPrefix {} {}", u128_of(&b[1]), u64_of(&b[2])),
        _ => format!("BRange {} {}", u128_of(&b[1]), u128_of(&b[2])),
    }
}
/// A block of a real certificate back in plain form.
fn block_json(v4: bool, b: IpBlock) -> Value {
    let nat = |a: Addr| -> u128 { if v4 { a.to_bits() >> 96 } else { a.to_bits() } };
    match b {
        IpBlock::Prefix(p) => json!(["p", nat(p.addr()).to_string(), p.addr_len()]),
        IpBlock::Range(r) => json!(["r", nat(r.min()).to_string(), nat(r.max()).to_string()]),
    }
}

fn ski_of(n: u64) -> KeyIdentifier {
    let mut b = [0u8; 20];
    b[12..].copy_from_slice(&n.to_be_bytes());
    KeyIdentifier::from(b)
}
fn info_of(n: u64) -> RouterKeyInfo { RouterKeyInfo::new(Bytes::copy_from_slice(&(n as u32).to_be_bytes())).unwrap() }
thread_local! {
    /// byte strings of real objects seen in the current case (see `num_of_bytes`)
    static INTERN: std::cell::RefCell<Vec<Vec<u8>>> = Default::default();
}
/// Byte strings as numbers (the model only compares them). The harness' own small encodings keep their
/// value: a key identifier `ski_of(n)` is n, a key info `info_of(n)` is 2^32 + n. Any other byte string (key
/// identifier and key of a real certificate) gets 2^72 + its index among such strings in the current case,
/// in order of first appearance (Coq parses long number literals slowly).
fn num_of_bytes(is_info: bool, b: &[u8]) -> String {
    if !is_info && b.len() == 20 && b[..12].iter().all(|x| *x == 0) {
        return u64::from_be_bytes(b[12..].try_into().unwrap()).to_string();
    }
    if is_info && b.len() == 4 {
        return ((1u64 << 32) + u32::from_be_bytes(b.try_into().unwrap()) as u64).to_string();
    }
    let mut key = vec![is_info as u8];
    key.extend_from_slice(b);
    INTERN.with(|t| {
        let mut t = t.borrow_mut();
        let idx = match t.iter().position(|x| *x == key) { Some(i) => i, None => { t.push(key); t.len() - 1 } };
        ((1u128 << 72) + idx as u128).to_string()
    })
}

/// A list of numbers as a Coq term; arithmetic progressions of 6 or more items are written `nseq from count step`
/// (C09.Spec.nseq expands them), so that lists of ~16000 providers stay small.
fn coq_nlist_c(xs: &[u32]) -> String {
    let mut parts: Vec<String> = Vec::new();
    let mut plain: Vec<u32> = Vec::new();
    let mut i = 0;
    while i < xs.len() {
        let mut j = i + 1;
        if j < xs.len() && xs[j] > xs[i] {
            let step = xs[j] - xs[i];
            while j + 1 < xs.len() && xs[j + 1] > xs[j] && xs[j + 1] - xs[j] == step { j += 1; }
            if j - i + 1 >= 6 {
                if !plain.is_empty() { parts.push(coq_nlist(plain.drain(..))); }
                parts.push(format!("nseq {} {} {}", xs[i], j - i + 1, step));
                i = j + 1;
                continue;
            }
        }
        plain.push(xs[i]);
        i += 1;
    }
    if !plain.is_empty() || parts.is_empty() { parts.push(coq_nlist(plain)); }
    if parts.len() == 1 && parts[0].starts_with('[') { parts.pop().unwrap() } else { format!("({})", parts.join(" ++ ")) }
}

/// Provider lists: explicit `[..]` or `{"from":a,"count":n,"step":s}`.
fn provs_of(v: &Value) -> Vec<u32> {
    if let Some(a) = v.as_array() { return a.iter().map(|x| u64_of(x) as u32).collect(); }
    let (from, count, step) = (u64_of(&v["from"]), u64_of(&v["count"]), u64_of(&v["step"]));
    (0..count).map(|i| (from + i * step) as u32).collect()
}

//------------ fixtures -------------------------------------------------------

/// A signer with one fixed RSA key (rpki test-data/crypto/rsa-key.*.der) over ring.
struct OneKeySigner { pair: ring::rsa::KeyPair, public: PublicKey, rng: ring::rand::SystemRandom }

impl OneKeySigner {
    fn new() -> Self {
        OneKeySigner {
            pair: ring::rsa::KeyPair::from_der(include_bytes!("../../fixtures/c09/rsa-key.private.der")).expect("rsa key"),
            public: PublicKey::decode(include_bytes!("../../fixtures/c09/rsa-key.public.der").as_ref()).expect("rsa public key"),
            rng: ring::rand::SystemRandom::new(),
        }
    }
    fn do_sign<Alg: SignatureAlgorithm>(&self, alg: Alg, data: &[u8]) -> Result<Signature<Alg>, String> {
        if !matches!(alg.signing_algorithm(), SigningAlgorithm::RsaSha256) { return Err("algorithm".into()) }
        let mut sig = vec![0; self.pair.public().modulus_len()];
        self.pair.sign(&ring::signature::RSA_PKCS1_SHA256, &self.rng, data, &mut sig).map_err(|_| "sign".to_string())?;
        Ok(Signature::new(alg, Bytes::from(sig)))
    }
}

impl Signer for OneKeySigner {
    type KeyId = ();
    type Error = String;
    fn create_key(&self, _: PublicKeyFormat) -> Result<(), String> { Ok(()) }
    fn get_key_info(&self, _: &()) -> Result<PublicKey, KeyError<String>> { Ok(self.public.clone()) }
    fn destroy_key(&self, _: &()) -> Result<(), KeyError<String>> { Ok(()) }
    fn sign<Alg: SignatureAlgorithm, D: AsRef<[u8]> + ?Sized>(&self, _: &(), alg: Alg, data: &D)
        -> Result<Signature<Alg>, SigningError<String>> { self.do_sign(alg, data.as_ref()).map_err(SigningError::Signer) }
    fn sign_one_off<Alg: SignatureAlgorithm, D: AsRef<[u8]> + ?Sized>(&self, alg: Alg, data: &D)
        -> Result<(Signature<Alg>, PublicKey), String> { Ok((self.do_sign(alg, data.as_ref())?, self.public.clone())) }
    fn rand(&self, target: &mut [u8]) -> Result<(), String> {
        use ring::rand::SecureRandom;
        self.rng.fill(target).map_err(|_| "rng".to_string())
    }
}

struct Fixtures {
    signer: OneKeySigner,
    tal: Tal,
    tal_uri: TalUri,
    /// rpki test-data ta.cer (all resources) and ca1.cer issued by it
    ta: Arc<CaCert>,
    ca1: Arc<CaCert>,
    /// a self-made trust anchor with all resources, signed with the fixture key
    my_ta: Arc<CaCert>,
    my_ta_cert: ResourceCert,
    /// the (ECDSA P-256) key of rpki test-data router.cer
    router_key: PublicKey,
    /// ROA contents already made (by their plain description)
    roa_cache: std::cell::RefCell<std::collections::HashMap<String, RouteOriginAttestation>>,
}

fn rsync(s: &str) -> uri::Rsync { uri::Rsync::from_string(s.into()).unwrap() }

/// A self-signed CA certificate with the given resources, validated as a trust anchor.
fn make_ca(signer: &OneKeySigner, tal: &Tal, v4: IpBlocks, v6: IpBlocks, asns: AsBlocks) -> ResourceCert {
    let pubkey = signer.public.clone();
    let mut cert = TbsCert::new(12u64.into(), pubkey.to_subject_name(), Validity::from_secs(86400), None, pubkey,
                                KeyUsage::Ca, Overclaim::Refuse);
    cert.set_basic_ca(Some(true));
    cert.set_ca_repository(Some(rsync("rsync://example.net/repo/ca/")));
    cert.set_rpki_manifest(Some(rsync("rsync://example.net/repo/ca/ca.mft")));
    cert.set_v4_resources(IpResources::blocks(v4));
    cert.set_v6_resources(IpResources::blocks(v6));
    cert.set_as_resources(AsResources::blocks(asns));
    let der = cert.into_cert(signer, &()).expect("sign CA certificate").to_captured();
    // through the decoder, as the engine sees certificates
    Cert::decode(der.as_slice()).expect("decode CA certificate")
        .validate_ta(tal.info().clone(), false).expect("self-made CA certificate validates")
}

fn as_blocks(v: &Value) -> AsBlocks {
    arr(v).iter().map(|b| {
        let (lo, hi) = (u64_of(&b[0]) as u32, u64_of(&b[1]) as u32);
        if lo == hi { AsBlock::Id(Asn::from_u32(lo)) } else { AsBlock::from((Asn::from_u32(lo), Asn::from_u32(hi))) }
    }).collect()
}

fn fixtures() -> Fixtures {
    let signer = OneKeySigner::new();
    let tal = Tal::read("ripe.tal", &mut include_bytes!("../../fixtures/c09/ripe.tal").as_ref()).expect("tal");
    let tal_uri = tal.uris().next().expect("tal uri").clone();
    let ta_cert = Cert::decode(include_bytes!("../../fixtures/c09/ta.cer").as_ref()).expect("ta.cer")
        .validate_ta(tal.info().clone(), false).expect("ta.cer validates as trust anchor");
    let ta = CaCert::root(ta_cert.clone(), tal_uri.clone(), 0).expect("ta CaCert");
    let ca1_cert = Cert::decode(include_bytes!("../../fixtures/c09/ca1.cer").as_ref()).expect("ca1.cer")
        .validate_ca_at(&ta_cert, false, Time::utc(2019, 6, 1, 0, 0, 0)).expect("ca1.cer validates under ta.cer");
    let ca1 = CaCert::chain(&ta, rsync("rsync://example.net/repo/ca1.cer"), ca1_cert, 32).expect("ca1 CaCert");
    let router = Cert::decode(include_bytes!("../../fixtures/c09/router.cer").as_ref()).expect("router.cer");
    let all4: IpBlocks = vec![IpBlock::Prefix(ResPrefix::new(0, 0))].into_iter().collect();
    let my_ta_cert = make_ca(&signer, &tal, all4.clone(), all4, vec![AsBlock::all()].into_iter().collect());
    let my_ta = CaCert::root(my_ta_cert.clone(), tal_uri.clone(), 0).expect("my CaCert");
    Fixtures { signer, tal, tal_uri, ta, ca1, my_ta, my_ta_cert, router_key: router.subject_public_key_info().clone(),
               roa_cache: Default::default() }
}

/// A BGPsec router certificate for the given AS blocks with the fixture router key.
fn make_router_cert(fx: &Fixtures, asns: AsBlocks) -> Cert {
    let mut cert = TbsCert::new(77u64.into(), fx.signer.public.to_subject_name(), Validity::from_secs(86400),
                                Some(fx.router_key.to_subject_name()), fx.router_key.clone(), KeyUsage::Ee, Overclaim::Refuse);
    cert.set_as_resources(AsResources::blocks(asns));
    let der = cert.into_cert(&fx.signer, &()).expect("sign router certificate").to_captured();
    Cert::decode(der.as_slice()).expect("decode router certificate")
}

//------------ running the implementation ------------------------------------

struct Snap {
    origins: Vec<(Pfx, u8, u32)>,
    keys: Vec<(String, u32, String)>,
    aspas: Vec<(u32, Vec<u32>)>,
    sorted: bool,
}

fn observe(s: &PayloadSnapshot) -> Snap {
    let o: Vec<RouteOrigin> = s.origins().map(|(o, _)| o).collect();
    let k: Vec<RouterKey> = s.router_keys().map(|(k, _)| k.clone()).collect();
    let a: Vec<rpki::rtr::payload::Aspa> = s.aspas().map(|(a, _)| a.clone()).collect();
    let sorted = o.windows(2).all(|w| w[0] < w[1]) && k.windows(2).all(|w| w[0] < w[1]) && a.windows(2).all(|w| w[0] < w[1]);
    Snap {
        origins: o.iter().map(|o| (Pfx::of_payload(o.prefix.prefix()), o.prefix.resolved_max_len(), o.asn.into_u32())).collect(),
        keys: k.iter().map(|k| (num_of_bytes(false, k.key_identifier.as_slice()), k.asn.into_u32(),
                                 num_of_bytes(true, k.key_info.as_slice()))).collect(),
        aspas: a.iter().map(|a| (a.customer.into_u32(), a.providers.iter().map(|p| p.into_u32()).collect())).collect(),
        sorted,
    }
}

fn policy_of(s: &str) -> FilterPolicy {
    match s { "accept" => FilterPolicy::Accept, "warn" => FilterPolicy::Warn, "reject" => FilterPolicy::Reject, x => panic!("policy {}", x) }
}
fn coq_policy(s: &str) -> &'static str { match s { "accept" => "Accept", "warn" => "Warn", _ => "Reject" } }

fn config_of(input: &Value) -> Config {
    let mut config = Config::default_with_paths(Default::default(), std::env::temp_dir());
    config.unsafe_vrps = policy_of(input["policy"].as_str().unwrap_or("accept"));
    config.limit_v4_len = opt(&input["lim4"]).map(|v| u64_of(v) as u8);
    config.limit_v6_len = opt(&input["lim6"]).map(|v| u64_of(v) as u8);
    config.enable_bgpsec = input["bgpsec"].as_bool().unwrap_or(true);
    config.enable_aspa = input["aspa"].as_bool().unwrap_or(true);
    config
}

fn slurm_of(s: &Value) -> LocalExceptions {
    let pf: Vec<PrefixFilter> = arr(&s["pfilters"]).iter().map(|f| PrefixFilter::new(
        opt(&f[0]).map(|p| Pfx::of(p).payload()), opt(&f[1]).map(|a| Asn::from_u32(u64_of(a) as u32)), None)).collect();
    let kf: Vec<BgpsecFilter> = arr(&s["kfilters"]).iter().map(|f| BgpsecFilter::new(
        opt(&f[0]).map(|k| ski_of(u64_of(k))), opt(&f[1]).map(|a| Asn::from_u32(u64_of(a) as u32)), None)).collect();
    let pa: Vec<PrefixAssertion> = arr(&s["origins"]).iter().map(|o| PrefixAssertion::new(
        MaxLenPrefix::new(Pfx::of(&o[0]).payload(), opt(&o[1]).map(|m| u64_of(m) as u8)).expect("assertion max length"),
        Asn::from_u32(u64_of(&o[2]) as u32), None)).collect();
    let ka: Vec<BgpsecAssertion> = arr(&s["keys"]).iter().map(|k| BgpsecAssertion::new(
        Asn::from_u32(u64_of(&k[1]) as u32), ski_of(u64_of(&k[0])),
        Base64KeyInfo::try_from((u64_of(&k[2]) as u32).to_be_bytes().to_vec()).unwrap(), None)).collect();
    // through the SLURM JSON text and the real parser
    let text = SlurmFile::new(ValidationOutputFilters::new(pf, kf), LocallyAddedAssertions::new(pa, ka)).to_string();
    LocalExceptions::from_json(&text, false).expect("slurm json")
}

fn coq_opt_n(v: &Value) -> String { match opt(v) { Some(x) => format!("(Some {})", u128_of(x)), None => "None".into() } }
fn coq_origin(p: Pfx, ml: u8, asn: u32) -> String { format!("Build_origin {} {} {}", p.coq(), ml, asn) }
fn coq_rkey(ski: &str, asn: u32, info: &str) -> String { format!("Build_rkey {} {} {}", ski, asn, info) }
fn info_num(n: u64) -> String { num_of_bytes(true, &(n as u32).to_be_bytes()) }

fn coq_slurm(s: &Value) -> String {
    format!("(Build_slurm {} {} {} {})",
        coq_list(arr(&s["pfilters"]), |f| format!("Build_pfilter {} {}",
            coq_opt(opt(&f[0]).map(|p| Pfx::of(p).coq())), coq_opt_n(&f[1]))),
        coq_list(arr(&s["kfilters"]), |f| format!("Build_kfilter {} {}", coq_opt_n(&f[0]), coq_opt_n(&f[1]))),
        coq_list(arr(&s["origins"]), |o| {
            let p = Pfx::of(&o[0]);
            coq_origin(p, opt(&o[1]).map(|m| u64_of(m) as u8).unwrap_or(p.len), u64_of(&o[2]) as u32)
        }),
        coq_list(arr(&s["keys"]), |k| coq_rkey(&u64_of(&k[0]).to_string(), u64_of(&k[1]) as u32, &info_num(u64_of(&k[2])))))
}

/// The model-level description of a publication point: (roas, keys, aspas) as Coq text.
struct PointDesc { roas: String, keys: Vec<String>, aspas: Vec<String> }

/// The content of a ROA as the engine gets it: the ROA is built, signed (fixture key), encoded, decoded and
/// validated by the rpki crate. (`RoaBuilder::to_attestation` alone yields a value whose address iterator panics.)
fn make_roa(fx: &Fixtures, r: &Value) -> RouteOriginAttestation {
    let key = r.to_string();
    if let Some(x) = fx.roa_cache.borrow().get(&key) { return x.clone(); }
    let mut b = RoaBuilder::new(Asn::from_u32(u64_of(&r["asn"]) as u32));
    for e in arr(&r["entries"]) {
        let p = Pfx::of(e);
        let ml = opt(&e[3]).map(|m| u64_of(m) as u8);
        if p.v4 { b.push_v4(RoaIpAddress::new_addr(p.ip(), p.len, ml)) } else { b.push_v6(RoaIpAddress::new_addr(p.ip(), p.len, ml)) }
    }
    let roa = b.finalize(SignedObjectBuilder::new(6u64.into(), Validity::from_secs(86400),
        rsync("rsync://example.net/repo/ca/ca.crl"), rsync("rsync://example.net/repo/ca.cer"),
        rsync("rsync://example.net/repo/ca/object.roa")), &fx.signer, &()).expect("sign ROA");
    let der = roa.to_captured();
    let (_, content) = Roa::decode(der.as_slice(), false).expect("decode ROA")
        .process(&fx.my_ta_cert, false, |_| Ok(())).expect("ROA validates");
    fx.roa_cache.borrow_mut().insert(key, content.clone());
    content
}
fn coq_roas(pt: &Value) -> String {
    coq_list(arr(&pt["roas"]), |r| format!("Build_roa {} {}", u64_of(&r["asn"]),
        coq_list(arr(&r["entries"]), |e| format!("Build_roa_entry {} {}", Pfx::of(e).coq(), coq_opt_n(&e[3])))))
}

fn run_pipeline(input: &Value, fx: &Fixtures) -> (Result<Snap, String>, String, Value) {
    INTERN.with(|t| t.borrow_mut().clear());
    let config = config_of(input);
    let report = ValidationReport::new(&config);
    let flags = report.verif_config();
    assert_eq!(flags, (config.enable_bgpsec, config.enable_aspa, config.limit_v4_len, config.limit_v6_len));
    let mut metrics = Metrics::new();
    metrics.tals = vec![
        TalMetrics::new(fx.tal.info().clone()), TalMetrics::new(Arc::new(TalInfo::from_name("second".into()))),
    ];
    let info = Arc::new(PublishInfo {
        tal: fx.tal.info().clone(), uri: None,
        roa_validity: Validity::new(Time::utc(2020, 1, 1, 0, 0, 0), Time::utc(2040, 1, 1, 0, 0, 0)),
        chain_validity: Validity::new(Time::utc(2020, 1, 1, 0, 0, 0), Time::utc(2040, 1, 1, 0, 0, 0)),
        point_stale: Time::utc(2040, 1, 1, 0, 0, 0),
    });
    let obj_uri = uri::Rsync::from_string("rsync://example.net/repo/object".into()).unwrap();

    // rejected CAs
    let mut coq_rej = Vec::new();
    for c in arr(&input["rejected"]) {
        let real: Option<Arc<CaCert>> = match (c["cert"].as_str(), c["via"].as_str()) {
            (Some("ta"), _) => Some(fx.ta.clone()),
            (Some("ca1"), _) => Some(fx.ca1.clone()),
            (Some(x), _) => panic!("fixture cert {}", x),
            // a real CA certificate carrying these blocks (the rpki crate normalises them)
            (None, Some("cert")) => {
                let v4: IpBlocks = arr(&c["v4"]).iter().map(|b| ipblock_of(true, b)).collect();
                let v6: IpBlocks = arr(&c["v6"]).iter().map(|b| ipblock_of(false, b)).collect();
                let cert = make_ca(&fx.signer, &fx.tal, v4, v6, vec![AsBlock::Id(Asn::from_u32(64511))].into_iter().collect());
                Some(CaCert::root(cert, fx.tal_uri.clone(), 0).expect("CaCert"))
            }
            _ => None,
        };
        if let Some(ca) = real {
            // the real path: PubPointProcessor::cancel -> extend_from_cert on a real CA certificate
            let v4: Vec<Value> = ca.cert().v4_resources().iter().map(|b| block_json(true, b)).collect();
            let v6: Vec<Value> = ca.cert().v6_resources().iter().map(|b| block_json(false, b)).collect();
            let proc = (&report).process_ta(&fx.tal, &fx.tal_uri, &fx.my_ta, 0).ok().flatten().expect("process_ta");
            proc.cancel(&ca);
            coq_rej.push(format!("Build_rcert {} {}", coq_list(&v4, coq_block), coq_list(&v6, coq_block)));
        } else {
            report.verif_reject(
                arr(&c["v4"]).iter().map(|b| ipblock_of(true, b)).collect(),
                arr(&c["v6"]).iter().map(|b| ipblock_of(false, b)).collect());
            coq_rej.push(format!("Build_rcert {} {}", coq_list(arr(&c["v4"]), coq_block), coq_list(arr(&c["v6"]), coq_block)));
        }
    }

    // valid publication points
    let mut descs = Vec::new();
    for pt in arr(&input["points"]) {
        let tal = pt["tal"].as_u64().unwrap_or(0) as usize;
        let mut d = PointDesc { roas: coq_roas(pt), keys: Vec::new(), aspas: Vec::new() };
        if pt["via"].as_str() == Some("processor") {
            // the real PubPointProcessor: ROAs from plain data, router certificates and ASPA objects made and
            // signed here (fixture keys), decoded and validated by the rpki crate
            let mut proc = (&report).process_ta(&fx.tal, &fx.tal_uri, &fx.my_ta, tal).ok().flatten().expect("process_ta");
            for r in arr(&pt["roas"]) {
                proc.process_roa(&obj_uri, fx.my_ta_cert.clone(), make_roa(fx, r)).ok().expect("process_roa");
            }
            for k in arr(&pt["keys"]) {
                let cert = make_router_cert(fx, as_blocks(&k["asns"]));
                let blocks = cert.as_resources().to_blocks().expect("router cert AS resources");
                d.keys.push(format!("Build_pubkey {} {} {}",
                    coq_list(blocks.iter(), |b| format!("({}, {})", b.min().into_u32(), b.max().into_u32())),
                    num_of_bytes(false, cert.subject_key_identifier().as_slice()),
                    num_of_bytes(true, cert.subject_public_key_info().to_info_bytes().as_ref())));
                proc.process_router_cert(&obj_uri, cert, &fx.my_ta).ok().expect("process_router_cert");
            }
            for a in arr(&pt["aspas"]) {
                let ps: Vec<Asn> = provs_of(&a[1]).into_iter().map(Asn::from_u32).collect();
                let obj = AspaBuilder::new(Asn::from_u32(u64_of(&a[0]) as u32), ps).expect("aspa providers")
                    .finalize(SignedObjectBuilder::new(5u64.into(), Validity::from_secs(86400),
                        rsync("rsync://example.net/repo/ca/ca.crl"), rsync("rsync://example.net/repo/ca.cer"),
                        rsync("rsync://example.net/repo/ca/object.asa")), &fx.signer, &()).expect("sign ASPA");
                let (ee, content) = obj.process(&fx.my_ta_cert, false, |_| Ok(())).expect("ASPA object validates");
                d.aspas.push(format!("Build_pubaspa {} {}", content.customer_as().into_u32(),
                    coq_nlist_c(&content.provider_as_set().iter().map(|a| a.into_u32()).collect::<Vec<_>>())));
                proc.process_aspa(&obj_uri, ee, content).ok().expect("process_aspa");
            }
            proc.commit();
        } else {
            // the hook bypasses PubPointProcessor::process_router_cert / process_aspa, where the toggles live
            assert!(config.enable_bgpsec || arr(&pt["keys"]).is_empty(), "hook points cannot carry keys when bgpsec is disabled");
            assert!(config.enable_aspa || arr(&pt["aspas"]).is_empty(), "hook points cannot carry ASPAs when aspa is disabled");
            let roas = arr(&pt["roas"]).iter().map(|r| make_roa(fx, r)).collect();
            let keys = arr(&pt["keys"]).iter().map(|k| {
                (as_blocks(&k["asns"]), ski_of(u64_of(&k["ski"])), info_of(u64_of(&k["info"])))
            }).collect();
            let aspas = arr(&pt["aspas"]).iter().map(|a| {
                // strictly increasing providers, as ProviderAsSet::to_set yields them
                let ps = provs_of(&a[1]);
                assert!(ps.windows(2).all(|w| w[0] < w[1]), "providers must be strictly increasing");
                (Asn::from_u32(u64_of(&a[0]) as u32), unsafe { SmallAsnSet::from_vec_unchecked(ps.into_iter().map(Asn::from_u32).collect()) })
            }).collect();
            report.verif_push_point(tal, Time::utc(2039, 1, 1, 0, 0, 0), roas, keys, aspas, info.clone());
            for k in arr(&pt["keys"]) {
                d.keys.push(format!("Build_pubkey {} {} {}",
                    coq_list(arr(&k["asns"]), |b| format!("({}, {})", u64_of(&b[0]), u64_of(&b[1]))),
                    u64_of(&k["ski"]), info_num(u64_of(&k["info"]))));
            }
            for a in arr(&pt["aspas"]) {
                d.aspas.push(format!("Build_pubaspa {} {}", u64_of(&a[0]), coq_nlist_c(&provs_of(&a[1]))));
            }
        }
        descs.push(d);
    }

    let exceptions = slurm_of(&input["slurm"]);
    let res = catch_unwind(AssertUnwindSafe(|| {
        let snap = report.into_snapshot(&exceptions, &mut metrics);
        observe(&snap)
    })).map_err(|e| e.downcast_ref::<String>().cloned().or_else(|| e.downcast_ref::<&str>().map(|s| s.to_string())).unwrap_or_default());

    let coq_in = format!(
        "{{| i_cfg := Build_config {} {} {} {} {}; i_rejected := {}; i_points := {}; i_slurm := {} |}}",
        coq_policy(input["policy"].as_str().unwrap_or("accept")), coq_opt_n(&input["lim4"]), coq_opt_n(&input["lim6"]),
        coq_bool(config.enable_bgpsec), coq_bool(config.enable_aspa),
        coq_list(&coq_rej, |s| s.clone()),
        coq_list(&descs, |d| format!("Build_pubpoint {} {} {}", d.roas, coq_list(&d.keys, |s| s.clone()), coq_list(&d.aspas, |s| s.clone()))),
        coq_slurm(&input["slurm"]));
    let p = &metrics.snapshot.payload;
    let m = json!({
        "valid": p.v4_origins.valid + p.v6_origins.valid, "unsafe": p.v4_origins.marked_unsafe + p.v6_origins.marked_unsafe,
        "filtered": p.v4_origins.locally_filtered + p.v6_origins.locally_filtered,
        "duplicate": p.v4_origins.duplicate + p.v6_origins.duplicate,
        "keys_filtered": p.router_keys.locally_filtered, "keys_duplicate": p.router_keys.duplicate,
        "aspas_merged": p.aspas.duplicate, "large_aspas": metrics.snapshot.large_aspas,
    });
    (res, coq_in, m)
}

fn run_compose(input: &Value, fx: &Fixtures) -> CaseOut {
    let (res, coq_in, m) = run_pipeline(input, fx);
    let (obs, coq_obs, nontrivial) = match &res {
        Ok(s) => (
            json!({
                "origins": s.origins.iter().map(|(p, ml, a)| json!([p.json(), ml, a])).collect::<Vec<_>>(),
                "keys": s.keys.iter().map(|(k, a, i)| json!([k, a, i])).collect::<Vec<_>>(),
                "aspas": s.aspas.iter().map(|(c, ps)| if ps.len() > 40 { json!([c, {"count": ps.len(), "first": ps[0], "last": ps[ps.len() - 1]}]) } else { json!([c, ps]) }).collect::<Vec<_>>(),
                "sorted": s.sorted, "metrics": m,
            }),
            format!("{{| ob_snap := Build_snap {} {} {}; ob_sorted := {}; ob_panic := false |}}",
                coq_list(&s.origins, |(p, ml, a)| coq_origin(*p, *ml, *a)),
                coq_list(&s.keys, |(k, a, i)| coq_rkey(k, *a, i)),
                coq_list(&s.aspas, |(c, ps)| format!("({}, {})", c, coq_nlist_c(ps))),
                coq_bool(s.sorted)),
            // something was removed, merged or added on the way
            ["unsafe", "filtered", "duplicate", "keys_filtered", "keys_duplicate", "aspas_merged", "large_aspas"]
                .iter().any(|k| m[*k].as_u64().unwrap_or(0) > 0)
                || !arr(&input["slurm"]["origins"]).is_empty() || !arr(&input["slurm"]["keys"]).is_empty()
                || m["valid"].as_u64().unwrap_or(0) as usize != s.origins.len(),
        ),
        Err(msg) => (json!({"panic": msg}),
                     "{| ob_snap := Build_snap [] [] []; ob_sorted := true; ob_panic := true |}".to_string(), true),
    };
    CaseOut { obs, coq: format!("{{| c_in := {}; c_impl := {} |}}", coq_in, coq_obs), nontrivial }
}

//------------ stream: slurm ---------------------------------------------------

fn run_slurm(input: &Value) -> CaseOut {
    let ex = slurm_of(&input["slurm"]);
    let origins: Vec<(Pfx, Option<u8>, u32)> = arr(&input["origins"]).iter()
        .map(|o| (Pfx::of(&o[0]), opt(&o[1]).map(|m| u64_of(m) as u8), u64_of(&o[2]) as u32)).collect();
    let d_o: Vec<bool> = origins.iter().map(|(p, ml, a)|
        ex.drop_origin(RouteOrigin::new(MaxLenPrefix::new(p.payload(), *ml).expect("max len"), Asn::from_u32(*a)))).collect();
    let keys: Vec<(u64, u32, u64)> = arr(&input["keys"]).iter().map(|k| (u64_of(&k[0]), u64_of(&k[1]) as u32, u64_of(&k[2]))).collect();
    let d_k: Vec<bool> = keys.iter().map(|(s, a, i)| ex.drop_router_key(&RouterKey::new(ski_of(*s), Asn::from_u32(*a), info_of(*i)))).collect();
    let coq = format!("{{| sc_slurm := {}; sc_origins := {}; sc_keys := {}; sc_drop_origins := {}; sc_drop_keys := {} |}}",
        coq_slurm(&input["slurm"]),
        coq_list(&origins, |(p, ml, a)| coq_origin(*p, ml.unwrap_or(p.len), *a)),
        coq_list(&keys, |(s, a, i)| coq_rkey(&s.to_string(), *a, &info_num(*i))),
        coq_list(&d_o, |b| coq_bool(*b).to_string()), coq_list(&d_k, |b| coq_bool(*b).to_string()));
    let nontrivial = d_o.iter().any(|b| *b) || d_k.iter().any(|b| *b);
    CaseOut { obs: json!({"drop_origins": d_o, "drop_keys": d_k}), coq, nontrivial }
}

//------------ stream: blocks --------------------------------------------------

fn run_blocks(input: &Value) -> CaseOut {
    let report = ValidationReport::new(&config_of(&json!({})));
    for c in arr(&input["certs"]) {
        report.verif_reject(
            arr(&c["v4"]).iter().map(|b| ipblock_of(true, b)).collect(),
            arr(&c["v6"]).iter().map(|b| ipblock_of(false, b)).collect());
    }
    let pfxs: Vec<Pfx> = arr(&input["prefixes"]).iter().map(Pfx::of).collect();
    let payload: Vec<Prefix> = pfxs.iter().map(|p| p.payload()).collect();
    let keep = report.verif_keep_prefixes(&payload);
    let coq = format!("{{| bc_certs := {}; bc_pfxs := {}; bc_keep := {} |}}",
        coq_list(arr(&input["certs"]), |c| format!("Build_rcert {} {}", coq_list(arr(&c["v4"]), coq_block), coq_list(arr(&c["v6"]), coq_block))),
        coq_list(&pfxs, |p| p.coq()), coq_list(&keep, |b| coq_bool(*b).to_string()));
    let nontrivial = keep.iter().any(|b| !*b);
    CaseOut { obs: json!({"keep": keep}), coq, nontrivial }
}

//------------ generators ------------------------------------------------------

fn v4_universe() -> Vec<Pfx> {
    vec![p4([10, 0, 0, 0], 8), p4([10, 0, 0, 0], 16), p4([10, 0, 0, 0], 24), p4([10, 0, 1, 0], 24), p4([10, 1, 0, 0], 16),
         p4([192, 0, 2, 0], 24), p4([192, 0, 2, 128], 25), p4([0, 0, 0, 0], 0), p4([1, 2, 3, 4], 32), p4([255, 255, 255, 255], 32),
         p4([10, 0, 0, 0], 23), p4([11, 0, 0, 0], 8)]
}
fn v6_universe() -> Vec<Pfx> {
    vec![p6("2001:db8::", 32), p6("2001:db8::", 48), p6("2001:db8:1::", 48), p6("::", 0), p6("2001:db8::1", 128),
         p6("ffff:ffff:ffff:ffff:ffff:ffff:ffff:ffff", 128), p6("2001:db8::", 33), p6("2001:db9::", 32), p6("::a00:0", 112)]
}
fn universe() -> Vec<Pfx> { let mut u = v4_universe(); u.extend(v6_universe()); u }
const ASNS: [u32; 6] = [64496, 64497, 64498, 64499, 0, 4294967295];

fn rand_pfx(rng: &mut Rng) -> Pfx {
    // clustered so that nesting and overlap are frequent
    if rng.chance(3, 5) {
        let len = *rng.pick(&[8u8, 12, 16, 20, 23, 24, 25, 28, 31, 32]);
        let raw = (10u32 << 24) | ((rng.next() as u32) & 0x0003_ffff) | (((rng.below(2) as u32)) << 23);
        let addr = if len == 0 { 0 } else { raw & (!0u32 << (32 - len as u32)) };
        Pfx { v4: true, addr: addr as u128, len }
    } else {
        let len = *rng.pick(&[32u8, 40, 48, 56, 64, 96, 127, 128]);
        let raw = (0x2001_0db8u128 << 96) | (((rng.next() as u128) & 0x3) << 80) | ((rng.next() as u128) & 0xff) | (((rng.below(2)) as u128) << 64);
        let addr = if len == 128 { raw } else { raw & (!0u128 << (128 - len as u32)) };
        Pfx { v4: false, addr, len }
    }
}
fn some_pfx(rng: &mut Rng) -> Pfx { if rng.chance(1, 2) { *rng.pick(&universe()) } else { rand_pfx(rng) } }
fn rand_ml(rng: &mut Rng, p: Pfx) -> Value {
    let w = width(p.v4) as u64;
    match rng.below(4) { 0 => Value::Null, 1 => json!(p.len), 2 => json!(w), _ => json!(rng.range(p.len as u64, w)) }
}
fn entry(p: Pfx, ml: Value) -> Value { json!([p.v4, p.addr.to_string(), p.len, ml]) }
fn roa(asn: u32, entries: Vec<Value>) -> Value { json!({"asn": asn, "entries": entries}) }
fn origin_j(p: Pfx, ml: Value, asn: u32) -> Value { json!([p.json(), ml, asn]) }

/// A block with a given relation to the prefix `p` (same family unless stated).
fn related_blocks(p: Pfx) -> Vec<(&'static str, bool, Value)> {
    let (lo, hi) = (p.lo(), p.hi());
    let max = if p.v4 { u32::MAX as u128 } else { u128::MAX };
    let s = |x: u128| x.to_string();
    let mut v: Vec<(&'static str, bool, Value)> = Vec::new();
    v.push(("equal_prefix", p.v4, json!(["p", s(p.addr), p.len])));
    v.push(("equal_range", p.v4, json!(["r", s(lo), s(hi)])));
    if p.len > 0 {
        let l2 = p.len - 1;
        let sup = Pfx { v4: p.v4, addr: if l2 == 0 { 0 } else { p.addr & (max << (width(p.v4) - l2 as u32)) & max }, len: l2 };
        v.push(("covering_prefix", p.v4, json!(["p", s(sup.addr), sup.len])));
    }
    if (p.len as u32) < width(p.v4) {
        v.push(("nested_prefix_low", p.v4, json!(["p", s(p.addr), p.len + 1])));
        v.push(("nested_prefix_high", p.v4, json!(["p", s(p.addr + (p.size() >> 1)), p.len + 1])));
        if hi - lo >= 2 { v.push(("nested_range_inner", p.v4, json!(["r", s(lo + 1), s(hi - 1)]))); }
    }
    v.push(("touch_first", p.v4, json!(["r", s(lo.saturating_sub(3)), s(lo)])));
    v.push(("touch_last", p.v4, json!(["r", s(hi), s(if hi > max - 3 { max } else { hi + 3 })])));
    v.push(("single_first", p.v4, json!(["r", s(lo), s(lo)])));
    v.push(("single_last", p.v4, json!(["r", s(hi), s(hi)])));
    if lo > 0 {
        v.push(("adjacent_below", p.v4, json!(["r", s(lo.saturating_sub(4)), s(lo - 1)])));
        v.push(("below_from_zero", p.v4, json!(["r", "0", s(lo - 1)])));
    }
    if hi < max {
        v.push(("adjacent_above", p.v4, json!(["r", s(hi + 1), s(if hi > max - 4 { max } else { hi + 4 })])));
        v.push(("above_to_max", p.v4, json!(["r", s(hi + 1), s(max)])));
    }
    if lo > 0 && hi < max { v.push(("straddle", p.v4, json!(["r", s(lo - 1), s(hi + 1)]))); }
    v.push(("slash_zero", p.v4, json!(["p", "0", 0])));
    v.push(("whole_family_as_range", p.v4, json!(["r", "0", s(max)])));
    // the same numbers in the other family
    let omax = if p.v4 { u128::MAX } else { u32::MAX as u128 };
    if hi <= omax { v.push(("other_family_same_numbers", !p.v4, json!(["r", s(lo), s(hi)]))); }
    v.push(("other_family_slash_zero", !p.v4, json!(["p", "0", 0])));
    v.push(("other_family_whole_range", !p.v4, json!(["r", "0", s(omax)])));
    v
}
fn cert_of(v4: bool, b: Value) -> Value { if v4 { json!({"v4": [b], "v6": []}) } else { json!({"v4": [], "v6": [b]}) } }

fn rand_block(rng: &mut Rng, v4: bool) -> Value {
    let max = if v4 { u32::MAX as u128 } else { u128::MAX };
    let mut p = rand_pfx(rng);
    while p.v4 != v4 { p = rand_pfx(rng); }
    match rng.below(6) {
        0 | 1 => json!(["p", p.addr.to_string(), p.len]),
        2 => json!(["r", p.lo().to_string(), p.hi().to_string()]),
        3 => { let a = p.lo() + rng.below(5) as u128; let b = a + rng.below(600) as u128; json!(["r", a.to_string(), b.min(max).to_string()]) }
        4 => { let b = p.hi(); let a = b.saturating_sub(rng.below(70000) as u128); json!(["r", a.to_string(), b.to_string()]) }
        _ => { let a = p.lo().saturating_sub(rng.below(3) as u128); json!(["r", a.to_string(), a.to_string()]) }
    }
}
fn rand_cert(rng: &mut Rng) -> Value {
    let n4 = rng.below(4); let n6 = rng.below(3);
    json!({"v4": (0..n4).map(|_| rand_block(rng, true)).collect::<Vec<_>>(),
           "v6": (0..n6).map(|_| rand_block(rng, false)).collect::<Vec<_>>()})
}

fn rand_slurm(rng: &mut Rng, pool: &[Value]) -> Value {
    // pool: origins [pfx, ml, asn] that occur in the case
    let mut pf = Vec::new();
    for _ in 0..rng.below(3) {
        let base = if !pool.is_empty() && rng.chance(2, 3) { Pfx::of(&rng.pick(pool)[0]) } else { some_pfx(rng) };
        let p = match rng.below(4) {
            0 => Value::Null,
            1 => base.json(),
            2 => { // a covering prefix
                let l = rng.below(base.len as u64 + 1) as u8;
                let max = if base.v4 { u32::MAX as u128 } else { u128::MAX };
                let a = if l == 0 { 0 } else { base.addr & (max << (width(base.v4) - l as u32)) & max };
                Pfx { v4: base.v4, addr: a, len: l }.json()
            }
            _ => some_pfx(rng).json(),
        };
        let a = match rng.below(3) { 0 => Value::Null, _ => json!(*rng.pick(&ASNS)) };
        pf.push(json!([p, a]));
    }
    let mut kf = Vec::new();
    for _ in 0..rng.below(3) {
        let s = if rng.chance(1, 2) { Value::Null } else { json!(rng.below(4)) };
        let a = if rng.chance(1, 2) { Value::Null } else { json!(*rng.pick(&ASNS[..4])) };
        kf.push(json!([s, a]));
    }
    let mut oa = Vec::new();
    for _ in 0..rng.below(3) {
        if !pool.is_empty() && rng.chance(1, 2) { oa.push(rng.pick(pool).clone()); }
        else { let p = some_pfx(rng); let ml = rand_ml(rng, p); oa.push(origin_j(p, ml, *rng.pick(&ASNS))); }
    }
    let mut ka = Vec::new();
    for _ in 0..rng.below(3) { ka.push(json!([rng.below(4), *rng.pick(&ASNS[..4]), rng.below(3)])); }
    json!({"pfilters": pf, "kfilters": kf, "origins": oa, "keys": ka})
}

fn rand_point(rng: &mut Rng, pool: &mut Vec<Value>, processor: bool) -> Value {
    let mut roas = Vec::new();
    for _ in 0..rng.below(4) {
        let asn = *rng.pick(&ASNS);
        let mut es = Vec::new();
        for _ in 0..rng.range(1, 4) {
            let (p, ml) = if !pool.is_empty() && rng.chance(1, 4) {
                let o = rng.pick(pool).clone(); (Pfx::of(&o[0]), o[1].clone())
            } else { let p = some_pfx(rng); let ml = rand_ml(rng, p); (p, ml) };
            pool.push(origin_j(p, ml.clone(), asn));
            es.push(entry(p, ml));
        }
        roas.push(roa(asn, es));
    }
    let mut keys = Vec::new();
    for _ in 0..rng.below(3) {
        let mut blocks = Vec::new();
        for _ in 0..rng.range(1, 3) {
            let lo = 64496 + rng.below(6); let hi = lo + if rng.chance(1, 2) { 0 } else { rng.below(4) };
            blocks.push(json!([lo, hi]));
        }
        keys.push(json!({"asns": blocks, "ski": rng.below(4), "info": rng.below(3)}));
    }
    let mut aspas = Vec::new();
    for _ in 0..rng.below(4) {
        let mut ps: Vec<u32> = (100..112u32).filter(|_| rng.chance(1, 3)).collect();
        if ps.is_empty() { ps.push(100 + rng.below(12) as u32); }
        aspas.push(json!([65000 + rng.below(4), ps]));
    }
    if processor {
        // router certificates (fixture key) and ASPA objects are made, signed and validated for real
        return json!({"tal": rng.below(2), "via": "processor", "roas": roas, "keys": keys, "aspas": aspas});
    }
    json!({"tal": rng.below(2), "roas": roas, "keys": keys, "aspas": aspas})
}

fn base_input(policy: &str) -> Value {
    json!({"policy": policy, "lim4": null, "lim6": null, "bgpsec": true, "aspa": true, "rejected": [], "points": [],
           "slurm": {"pfilters": [], "kfilters": [], "origins": [], "keys": []}})
}
fn point(roas: Vec<Value>) -> Value { json!({"tal": 0, "roas": roas, "keys": [], "aspas": []}) }
const POLICIES: [&str; 3] = ["accept", "warn", "reject"];

fn random_case(rng: &mut Rng, processor_ok: bool) -> Value {
    let mut c = base_input(*rng.pick(&POLICIES));
    let toggles_off = processor_ok && rng.chance(1, 3);
    if toggles_off { c["bgpsec"] = json!(rng.chance(1, 2)); c["aspa"] = json!(rng.chance(1, 2)); }
    if rng.chance(1, 3) { c["lim4"] = json!(*rng.pick(&[0u64, 8, 16, 23, 24, 25, 31, 32, 33, 255])); }
    if rng.chance(1, 3) { c["lim6"] = json!(*rng.pick(&[0u64, 32, 47, 48, 49, 64, 127, 128, 129])); }
    let mut pool = Vec::new();
    let np = rng.range(1, 4);
    let mut pts = Vec::new();
    for _ in 0..np {
        let processor = processor_ok && (toggles_off || rng.chance(1, 4));
        pts.push(rand_point(rng, &mut pool, processor));
    }
    c["points"] = json!(pts);
    let nr = rng.below(3);
    let mut rej: Vec<Value> = (0..nr).map(|_| {
        let mut c = rand_cert(rng);
        if processor_ok && rng.chance(1, 2) { c["via"] = json!("cert"); }
        c
    }).collect();
    if !pool.is_empty() && rng.chance(1, 2) {
        // a block related to a published prefix
        let p = Pfx::of(&rng.pick(&pool)[0]);
        let rel = related_blocks(p);
        let (_, v4, b) = rng.pick(&rel).clone();
        rej.push(cert_of(v4, b));
    }
    if processor_ok && rng.chance(1, 6) { rej.push(json!({"cert": *rng.pick(&["ta", "ca1"])})); }
    c["rejected"] = json!(rej);
    c["slurm"] = rand_slurm(rng, &pool);
    c
}

fn gen_compose(rng: &mut Rng, tier: &str) -> Vec<(String, Value)> {
    let mut cases: Vec<(String, Value)> = Vec::new();
    let p = p4([10, 0, 0, 0], 16);
    let asn = 64496u32;
    // (a) exhaustive small scope: one origin x SLURM filter x assertion x rejected block x policy
    let filters: Vec<(&str, Value)> = vec![
        ("nofilter", json!([])),
        ("f_covering", json!([[p4([10, 0, 0, 0], 8).json(), null]])),
        ("f_equal", json!([[p.json(), null]])),
        ("f_more_specific", json!([[p4([10, 0, 0, 0], 24).json(), null]])),
        ("f_sibling", json!([[p4([10, 1, 0, 0], 16).json(), null]])),
        ("f_other_family", json!([[p6("::", 0).json(), null]])),
        ("f_slash0", json!([[p4([0, 0, 0, 0], 0).json(), null]])),
        ("f_asn", json!([[null, asn]])),
        ("f_asn_other", json!([[null, 64497]])),
        ("f_both", json!([[p4([10, 0, 0, 0], 8).json(), asn]])),
        ("f_prefix_ok_asn_other", json!([[p4([10, 0, 0, 0], 8).json(), 64497]])),
        ("f_prefix_other_asn_ok", json!([[p4([10, 1, 0, 0], 16).json(), asn]])),
        ("f_empty", json!([[null, null]])),
        ("f_two", json!([[p4([10, 1, 0, 0], 16).json(), null], [null, asn]])),
    ];
    let asserts: Vec<(&str, Value)> = vec![
        ("noassert", json!([])),
        ("a_same", json!([origin_j(p, json!(24), asn)])),
        ("a_same_twice", json!([origin_j(p, json!(24), asn), origin_j(p, json!(24), asn)])),
        ("a_other_ml", json!([origin_j(p, Value::Null, asn)])),
        ("a_other", json!([origin_j(p4([192, 0, 2, 0], 24), Value::Null, 64497)])),
    ];
    let rejs: Vec<(&str, Value)> = vec![
        ("norej", json!([])),
        ("r_overlap", json!([{"v4": [["p", (10u32 << 24).to_string(), 8]], "v6": []}])),
        ("r_disjoint", json!([{"v4": [["p", (11u32 << 24).to_string(), 8]], "v6": []}])),
        ("r_slash0", json!([{"v4": [["p", "0", 0]], "v6": [["p", "0", 0]]}])),
    ];
    for (fname, f) in &filters {
        for (aname, a) in &asserts {
            for (rname, r) in &rejs {
                for pol in POLICIES {
                    if *rname != "r_overlap" && pol != "reject" && tier != "thorough" { continue; }
                    let mut c = base_input(pol);
                    c["points"] = json!([point(vec![roa(asn, vec![entry(p, json!(24))])])]);
                    c["slurm"]["pfilters"] = f.clone();
                    c["slurm"]["origins"] = a.clone();
                    c["rejected"] = r.clone();
                    cases.push((format!("exhaustive1.{}.{}.{}", fname, aname, rname), c));
                }
            }
        }
    }
    // (b) prefix length limits at limit-1 / limit / limit+1, both families in one ROA, hook and real processor
    for via in ["hook", "processor"] {
        for (l4, l6) in [(None, None), (Some(0u64), Some(0u64)), (Some(24), None), (None, Some(48)), (Some(24), Some(48)),
                         (Some(32), Some(128)), (Some(31), Some(127)), (Some(48), Some(24)), (Some(255), Some(255))] {
            let mut es = Vec::new();
            for len in [0u8, 23, 24, 25, 31, 32] {
                let a = if len == 0 { 0 } else { (10u32 << 24) & (!0u32 << (32 - len as u32)) };
                es.push(entry(Pfx { v4: true, addr: a as u128, len }, Value::Null));
            }
            for len in [0u8, 23, 24, 25, 47, 48, 49, 127, 128] {
                let raw = 0x2001_0db8u128 << 96;
                let a = if len == 0 { 0 } else { raw & (!0u128 << (128 - len as u32)) };
                es.push(entry(Pfx { v4: false, addr: a, len }, Value::Null));
            }
            let mut c = base_input("accept");
            c["lim4"] = json!(l4); c["lim6"] = json!(l6);
            let mut pt = point(vec![roa(asn, es)]);
            if via == "processor" { pt["via"] = json!("processor"); }
            c["points"] = json!([pt]);
            cases.push((format!("limits.{}", via), c));
        }
    }
    // (c) duplicates across ROAs, points, TALs, max-len None vs explicit prefix length, assertion of a published origin
    {
        let e1 = entry(p, Value::Null); let e2 = entry(p, json!(16)); let e3 = entry(p, json!(17));
        let mut c = base_input("reject");
        c["points"] = json!([
            {"tal": 0, "roas": [roa(asn, vec![e1.clone(), e2.clone(), e3.clone()]), roa(asn, vec![e1.clone()])], "keys": [], "aspas": []},
            {"tal": 1, "roas": [roa(asn, vec![e2.clone()]), roa(64497, vec![e1.clone()])], "keys": [], "aspas": []},
            {"tal": 0, "via": "processor", "roas": [roa(asn, vec![e3.clone(), e1.clone()])], "keys": [], "aspas": []},
        ]);
        cases.push(("duplicates.origins".into(), c.clone()));
        c["slurm"]["origins"] = json!([origin_j(p, json!(16), asn), origin_j(p, Value::Null, asn), origin_j(p, json!(17), 64497)]);
        cases.push(("duplicates.origins_and_assertions".into(), c));
    }
    // (d) router keys: overlapping / adjacent / single AS blocks, SLURM bgpsec filters, assertions
    let kfilters: Vec<(&str, Value)> = vec![
        ("none", json!([])), ("ski", json!([[1, null]])), ("asn", json!([[null, 64497]])), ("both", json!([[1, 64497]])),
        ("ski_other_asn", json!([[1, 64999]])), ("empty", json!([[null, null]])), ("two", json!([[2, null], [null, 64496]])),
    ];
    for (kn, kf) in &kfilters {
        for ka in [json!([]), json!([[1, 64497, 0]]), json!([[3, 64999, 2], [3, 64999, 2]])] {
            let mut c = base_input("accept");
            c["points"] = json!([
                {"tal": 0, "roas": [], "aspas": [], "keys": [
                    {"asns": [[64496, 64498], [64497, 64499]], "ski": 1, "info": 0},
                    {"asns": [[64497, 64497]], "ski": 2, "info": 0},
                    {"asns": [[64496, 64496], [64497, 64497]], "ski": 1, "info": 1}]},
                {"tal": 1, "roas": [], "aspas": [], "keys": [{"asns": [[64497, 64498]], "ski": 1, "info": 0}]},
            ]);
            c["slurm"]["kfilters"] = kf.clone();
            c["slurm"]["keys"] = ka;
            cases.push((format!("keys.filter_{}", kn), c));
        }
    }
    // (e) ASPAs: same customer over several objects and points; union sizes around ProviderAsns::MAX_COUNT
    {
        let mut c = base_input("accept");
        c["points"] = json!([
            {"tal": 0, "roas": [], "keys": [], "aspas": [[65000, [1, 3, 5]], [65001, [7]], [65000, [2, 3, 9]]]},
            {"tal": 1, "roas": [], "keys": [], "aspas": [[65000, [5]], [65002, [1, 2]], [65001, [7]], [65000, [0, 4294967295u32]]]},
        ]);
        cases.push(("aspas.union_small".into(), c));
        for total in [16379u64, 16380, 16381] {
            // two overlapping objects whose union has `total` providers
            let mut c = base_input("accept");
            c["points"] = json!([
                {"tal": 0, "roas": [], "keys": [], "aspas": [[65000, {"from": 1, "count": 10000, "step": 1}], [65001, [1, 2]]]},
                {"tal": 1, "roas": [], "keys": [], "aspas": [[65000, {"from": 9000, "count": total - 8999, "step": 1}]]},
            ]);
            cases.push((format!("aspas.union_{}", total), c));
            // interleaved: odd and even numbers
            let mut c = base_input("accept");
            let half = total / 2;
            c["points"] = json!([
                {"tal": 0, "roas": [], "keys": [], "aspas": [[65000, {"from": 1, "count": half, "step": 2}],
                                                            [65000, {"from": 2, "count": total - half, "step": 2}], [64999, [5]]]},
            ]);
            cases.push((format!("aspas.union_{}", total), c));
            // a single object of that size
            let mut c = base_input("accept");
            c["points"] = json!([{"tal": 0, "roas": [], "keys": [], "aspas": [[65000, {"from": 10, "count": total, "step": 3}]]}]);
            cases.push((format!("aspas.single_{}", total), c));
        }
    }
    // (f) real PubPointProcessor with fixture objects: feature toggles, cancel() on real CA certificates
    for bg in [true, false] {
        for asp in [true, false] {
            for rej in [json!([]), json!([{"cert": "ta"}]), json!([{"cert": "ca1"}]), json!([{"cert": "ta"}, {"cert": "ca1"}]),
                        json!([{"via": "cert", "v4": [["p", "0", 0], ["r", "167772160", "167772165"]], "v6": [["r", "0", u128::MAX.to_string()]]}]),
                        json!([{"via": "cert", "v4": [["p", (10u32 << 24).to_string(), 9], ["p", ((10u32 << 24) + (1 << 23)).to_string(), 9]], "v6": []}])] {
                for pol in ["accept", "reject"] {
                    let mut c = base_input(pol);
                    c["bgpsec"] = json!(bg); c["aspa"] = json!(asp);
                    c["rejected"] = rej.clone();
                    c["points"] = json!([
                        {"tal": 0, "via": "processor", "keys": [{"asns": [[64496, 64497], [64499, 64499]]}],
                         "aspas": [[65000, [1, 2, 3]], [65001, [4]]],
                         "roas": [roa(asn, vec![entry(p, json!(24)), entry(p6("2001:db8::", 32), Value::Null),
                                                entry(p4([185, 49, 140, 0], 22), Value::Null), entry(p6("2a04:b900::", 29), Value::Null)])]},
                        {"tal": 1, "via": "processor", "keys": [{"asns": [[64497, 64498]]}], "aspas": [[65000, [3, 4]]], "roas": []},
                    ]);
                    cases.push(("realobjects.toggles_cancel".into(), c));
                }
            }
        }
    }
    // (g) structured random
    let n = if tier == "thorough" { 6000 } else { 300 };
    for i in 0..n {
        let mut r = rng.fork();
        cases.push((if i % 3 == 0 { "random.with_processor".into() } else { "random.hook".into() }, random_case(&mut r, i % 3 == 0)));
    }
    // (h) many items (hash map iteration order)
    for _ in 0..(if tier == "thorough" { 6 } else { 2 }) {
        let mut r = rng.fork();
        let mut c = base_input("reject");
        let mut pool = Vec::new();
        let mut pts = Vec::new();
        for _ in 0..3 {
            let mut roas = Vec::new();
            for _ in 0..25 {
                let a = *r.pick(&ASNS);
                let es: Vec<Value> = (0..4).map(|_| { let p = rand_pfx(&mut r); let ml = rand_ml(&mut r, p); pool.push(origin_j(p, ml.clone(), a)); entry(p, ml) }).collect();
                roas.push(roa(a, es));
            }
            pts.push(json!({"tal": r.below(2), "roas": roas, "keys": [{"asns": [[64000, 64100]], "ski": r.below(3), "info": 0}],
                            "aspas": (0..40).map(|k| json!([65000 + (k % 25), [100 + r.below(50), 200 + r.below(50)]])).collect::<Vec<_>>()}));
        }
        c["points"] = json!(pts);
        c["rejected"] = json!([rand_cert(&mut r), rand_cert(&mut r)]);
        c["slurm"] = rand_slurm(&mut r, &pool);
        cases.push(("random.large".into(), c));
    }
    // (i) degenerate inputs: filters that match nothing, publication points without payload
    //     (ROA entries with an out-of-range length or max length cannot get past the rpki decoder)
    {
        let mut c = base_input("reject");
        c["points"] = json!([point(vec![roa(asn, vec![entry(p, json!(16)), entry(p6("2001:db8::", 32), json!(128))])])]);
        c["slurm"]["pfilters"] = json!([[null, null], [null, null]]);
        c["slurm"]["kfilters"] = json!([[null, null]]);
        cases.push(("malformed.empty_filters".into(), c.clone()));
        c["points"][0]["via"] = json!("processor");
        cases.push(("malformed.empty_filters".into(), c));
        let mut c = base_input("warn");
        c["points"] = json!([point(vec![]), json!({"tal": 1, "via": "processor", "roas": [], "keys": [], "aspas": []})]);
        cases.push(("malformed.empty_points".into(), c));
    }
    // the few big cases go to evenly spaced positions (the checker evaluates contiguous chunks in parallel)
    let (big, mut rest): (Vec<_>, Vec<_>) = cases.into_iter().partition(|(c, _)| c.starts_with("random.large"));
    let n = big.len();
    for (k, b) in big.into_iter().enumerate() {
        let pos = (rest.len() * (2 * k + 1)) / (2 * n);
        rest.insert(pos, b);
    }
    rest
}

fn gen_unsafe(rng: &mut Rng, tier: &str) -> Vec<(String, Value)> {
    let mut cases: Vec<(String, Value)> = Vec::new();
    let asn = 64496u32;
    // (a) one VRP, one rejected block in every relation to it, each policy; boundary prefixes /0, /32, /128, first/last address
    let vrps = vec![
        p4([10, 0, 0, 0], 16), p4([0, 0, 0, 0], 0), p4([1, 2, 3, 4], 32), p4([0, 0, 0, 0], 32), p4([255, 255, 255, 255], 32),
        p4([0, 0, 0, 0], 8), p4([255, 0, 0, 0], 8), p4([128, 0, 0, 0], 1),
        p6("2001:db8::", 32), p6("::", 0), p6("2001:db8::1", 128), p6("::", 128), p6("ffff:ffff:ffff:ffff:ffff:ffff:ffff:ffff", 128),
        p6("::", 16), p6("ffff::", 16), p6("::a00:0", 112),
    ];
    for (k, p) in vrps.iter().enumerate() {
        for (rel, v4, b) in related_blocks(*p) {
            for pol in POLICIES {
                // every policy for the first prefixes of each family, reject only for the others
                if pol != "reject" && !(k < 2 || (8..10).contains(&k)) && tier != "thorough" { continue; }
                let mut c = base_input(pol);
                c["points"] = json!([point(vec![roa(asn, vec![entry(*p, Value::Null)])])]);
                c["rejected"] = json!([cert_of(v4, b.clone())]);
                cases.push((format!("relation.{}", rel), c.clone()));
                // the same blocks in a real CA certificate, rejected through PubPointProcessor::cancel
                if pol == "reject" && (k % 8 < 3 || tier == "thorough") {
                    c["rejected"][0]["via"] = json!("cert");
                    cases.push((format!("relation_realcert.{}", rel), c));
                }
            }
        }
    }
    // (b) unsafe VRP that is also a SLURM assertion / SLURM-filtered / duplicate over points; several rejected CAs
    let p = p4([10, 0, 0, 0], 16);
    let q = p4([192, 0, 2, 0], 24);
    for pol in POLICIES {
        let mut c = base_input(pol);
        c["points"] = json!([point(vec![roa(asn, vec![entry(p, Value::Null), entry(q, Value::Null)])]),
                             json!({"tal": 1, "roas": [roa(asn, vec![entry(p, json!(16))])], "keys": [], "aspas": []})]);
        c["rejected"] = json!([{"v4": [["p", (10u32 << 24).to_string(), 8]], "v6": []}, {"v4": [], "v6": [["p", "0", 1]]}]);
        cases.push(("combined.plain".into(), c.clone()));
        c["slurm"]["origins"] = json!([origin_j(p, Value::Null, asn)]);
        cases.push(("combined.unsafe_is_asserted".into(), c.clone()));
        c["slurm"]["origins"] = json!([origin_j(p4([10, 0, 0, 0], 24), Value::Null, asn)]);
        cases.push(("combined.assertion_overlaps_rejected".into(), c.clone()));
        c["slurm"]["pfilters"] = json!([[q.json(), null]]);
        cases.push(("combined.safe_is_filtered".into(), c.clone()));
        c["rejected"] = json!([{"cert": "ta"}]);
        cases.push(("combined.real_ta_cert_rejected".into(), c.clone()));
        c["rejected"] = json!([{"cert": "ca1"}, {"v4": [["r", (10u32 << 24).to_string(), ((10u32 << 24) + 5).to_string()]], "v6": []}]);
        c["points"] = json!([point(vec![roa(asn, vec![entry(p, Value::Null), entry(q, Value::Null),
            entry(p4([185, 49, 140, 0], 22), Value::Null), entry(p4([185, 49, 144, 0], 22), Value::Null), entry(p6("2a04:b900::", 29), Value::Null)])])]);
        cases.push(("combined.real_ca_cert_rejected".into(), c));
    }
    // (c) random: clustered prefixes and blocks
    let n = if tier == "thorough" { 5000 } else { 250 };
    for _ in 0..n {
        let mut r = rng.fork();
        let mut c = base_input(*r.pick(&POLICIES));
        let mut pool = Vec::new();
        let pts: Vec<Value> = (0..r.range(1, 3)).map(|_| {
            let mut pt = rand_point(&mut r, &mut pool, false);
            pt["keys"] = json!([]); pt["aspas"] = json!([]);
            pt
        }).collect();
        c["points"] = json!(pts);
        let mut rej: Vec<Value> = (0..r.range(1, 3)).map(|_| {
            let mut c = rand_cert(&mut r);
            if r.chance(1, 3) { c["via"] = json!("cert"); }
            c
        }).collect();
        for _ in 0..r.below(3) {
            if pool.is_empty() { break; }
            let p = Pfx::of(&r.pick(&pool)[0]);
            let rel = related_blocks(p);
            let (_, v4, b) = r.pick(&rel).clone();
            rej.push(cert_of(v4, b));
        }
        c["rejected"] = json!(rej);
        if r.chance(1, 3) { c["slurm"] = rand_slurm(&mut r, &pool); c["slurm"]["kfilters"] = json!([]); c["slurm"]["keys"] = json!([]); }
        if r.chance(1, 5) { c["lim4"] = json!(24); }
        cases.push(("random".into(), c));
    }
    cases
}

fn gen_slurm(rng: &mut Rng, tier: &str) -> Vec<(String, Value)> {
    let mut cases = Vec::new();
    let uni = universe();
    // every filter prefix of the universe against every origin prefix of the universe, with / without ASN
    for f in &uni {
        for (an, fa) in [("prefix_only", Value::Null), ("prefix_and_asn", json!(64496))] {
            let origins: Vec<Value> = uni.iter().enumerate().map(|(k, o)|
                if k % 2 == 0 { origin_j(*o, Value::Null, 64496) } else { origin_j(*o, json!(width(o.v4)), 64497) }).collect();
            cases.push((format!("exhaustive.{}", an), json!({
                "slurm": {"pfilters": [[f.json(), fa]], "kfilters": [], "origins": [], "keys": []}, "origins": origins, "keys": []})));
        }
    }
    let all_origins: Vec<Value> = uni.iter().map(|o| origin_j(*o, Value::Null, 64496)).chain(uni.iter().map(|o| origin_j(*o, Value::Null, 0))).collect();
    for (name, pf) in [("asn_only", json!([[null, 64496]])), ("empty_filter", json!([[null, null]])), ("no_filter", json!([])),
                       ("asn_zero", json!([[null, 0]])), ("asn_max", json!([[null, 4294967295u32]]))] {
        cases.push((format!("exhaustive.{}", name), json!({
            "slurm": {"pfilters": pf, "kfilters": [], "origins": [], "keys": []}, "origins": all_origins, "keys": []})));
    }
    // router key filters: all combinations over a small universe
    let keys: Vec<Value> = (0..3u64).flat_map(|s| (0..3u64).flat_map(move |a| (0..2u64).map(move |i| json!([s, 64496 + a, i])))).collect();
    for s in [Value::Null, json!(0), json!(1), json!(7)] {
        for a in [Value::Null, json!(64496), json!(64497), json!(1)] {
            cases.push(("exhaustive.key_filters".into(), json!({
                "slurm": {"pfilters": [], "kfilters": [[s, a]], "origins": [], "keys": []}, "origins": [], "keys": keys})));
        }
    }
    // random: filters derived from origin prefixes by truncation, one flipped bit, extension
    let n = if tier == "thorough" { 4000 } else { 250 };
    for _ in 0..n {
        let mut r = rng.fork();
        let origins: Vec<Value> = (0..r.range(3, 10)).map(|_| { let p = some_pfx(&mut r); let ml = rand_ml(&mut r, p); origin_j(p, ml, *r.pick(&ASNS)) }).collect();
        let mut pf = Vec::new();
        for _ in 0..r.range(1, 3) {
            let base = Pfx::of(&r.pick(&origins)[0]);
            let w = width(base.v4);
            let max = if base.v4 { u32::MAX as u128 } else { u128::MAX };
            let mask = |l: u8| -> u128 { if l == 0 { 0 } else { (max << (w - l as u32)) & max } };
            let f = match r.below(5) {
                0 => base,
                1 => { let l = r.below(base.len as u64 + 1) as u8; Pfx { v4: base.v4, addr: base.addr & mask(l), len: l } }
                2 => { // truncated, then one bit inside the filter length flipped
                    let l = r.range(1, base.len.max(1) as u64) as u8;
                    let bit = r.below(l as u64) as u32;
                    Pfx { v4: base.v4, addr: (base.addr & mask(l)) ^ (1u128 << (w - 1 - bit)), len: l }
                }
                3 => { // longer than the origin
                    let l = r.range(base.len as u64, w as u64) as u8;
                    Pfx { v4: base.v4, addr: base.addr, len: l }
                }
                _ => some_pfx(&mut r),
            };
            let a = if r.chance(1, 2) { Value::Null } else { json!(*r.pick(&ASNS)) };
            pf.push(json!([f.json(), a]));
        }
        let keys: Vec<Value> = (0..r.below(5)).map(|_| json!([r.below(4), 64496 + r.below(4), r.below(2)])).collect();
        let kf: Vec<Value> = (0..r.below(3)).map(|_| json!([if r.chance(1, 2) { Value::Null } else { json!(r.below(4)) },
                                                            if r.chance(1, 2) { Value::Null } else { json!(64496 + r.below(4)) }])).collect();
        cases.push(("random".into(), json!({"slurm": {"pfilters": pf, "kfilters": kf, "origins": [], "keys": []}, "origins": origins, "keys": keys})));
    }
    cases
}

fn gen_blocks(rng: &mut Rng, tier: &str) -> Vec<(String, Value)> {
    let mut cases = Vec::new();
    // every relation of one block to one prefix, alone and together with a second, unrelated block before / after it
    let pfxs = vec![p4([10, 0, 0, 0], 16), p4([0, 0, 0, 0], 0), p4([1, 2, 3, 4], 32), p4([255, 255, 255, 255], 32), p4([0, 0, 0, 0], 32),
                    p6("2001:db8::", 32), p6("::", 0), p6("2001:db8::1", 128), p6("ffff:ffff:ffff:ffff:ffff:ffff:ffff:ffff", 128), p6("::", 128)];
    for (k, p) in pfxs.iter().enumerate() {
        for (rel, v4, b) in related_blocks(*p) {
            let probe: Vec<Value> = pfxs.iter().map(|q| q.json()).collect();
            cases.push((format!("relation.{}", rel), json!({"certs": [cert_of(v4, b.clone())], "prefixes": probe})));
            if !(k == 0 || k == 5) && tier != "thorough" { continue; }
            let other = if v4 { json!(["p", (172u32 << 24).to_string(), 12]) } else { json!(["p", (0x2a04u128 << 112).to_string(), 29]) };
            cases.push((format!("relation2.{}", rel), json!({"certs": [cert_of(v4, other.clone()), cert_of(v4, b.clone())], "prefixes": probe})));
            cases.push((format!("relation2.{}", rel), json!({"certs": [cert_of(v4, b.clone()), cert_of(v4, other)], "prefixes": probe})));
        }
    }
    // random block lists: sorted (fast path of from_iter), unsorted, with adjacent and nested blocks
    let n = if tier == "thorough" { 5000 } else { 300 };
    for i in 0..n {
        let mut r = rng.fork();
        let mut v4: Vec<Value> = (0..r.below(6)).map(|_| rand_block(&mut r, true)).collect();
        let mut v6: Vec<Value> = (0..r.below(5)).map(|_| rand_block(&mut r, false)).collect();
        // adjacent / touching companions
        for list in [&mut v4, &mut v6] {
            if !list.is_empty() && r.chance(1, 2) {
                let b = r.pick(list).clone();
                if b[0] == "r" {
                    let hi = u128_of(&b[2]);
                    if hi < u32::MAX as u128 - 10 { list.push(json!(["r", (hi + 1).to_string(), (hi + 1 + r.below(9) as u128).to_string()])); }
                }
            }
        }
        let class = if i % 2 == 0 {
            let key = |b: &Value| -> u128 { u128_of(&b[1]) };
            v4.sort_by_key(key); v6.sort_by_key(key);
            "random.sorted"
        } else { "random.unsorted" };
        let certs = if r.chance(1, 2) { json!([{"v4": v4, "v6": v6}]) } else {
            // split over several certificates
            let mut cs = Vec::new();
            for b in v4 { cs.push(cert_of(true, b)); }
            for b in v6 { cs.push(cert_of(false, b)); }
            r.shuffle(&mut cs);
            if class == "random.sorted" { cs.sort_by_key(|c| { let l = if arr(&c["v4"]).is_empty() { &c["v6"][0] } else { &c["v4"][0] }; u128_of(&l[1]) }); }
            json!(cs)
        };
        let mut probes: Vec<Value> = (0..r.range(4, 12)).map(|_| some_pfx(&mut r).json()).collect();
        // probes at the edges of the blocks
        for c in arr(&certs) {
            for (fam, key) in [(true, "v4"), (false, "v6")] {
                for b in arr(&c[key]) {
                    if b[0] == "r" && r.chance(1, 2) {
                        let w = width(fam) as u8;
                        let max = if fam { u32::MAX as u128 } else { u128::MAX };
                        let (lo, hi) = (u128_of(&b[1]), u128_of(&b[2]));
                        probes.push(json!([fam, lo.to_string(), w]));
                        probes.push(json!([fam, hi.to_string(), w]));
                        if lo > 0 { probes.push(json!([fam, (lo - 1).to_string(), w])); }
                        if hi < max { probes.push(json!([fam, (hi + 1).to_string(), w])); }
                    }
                }
            }
        }
        cases.push((class.into(), json!({"certs": certs, "prefixes": probes})));
    }
    cases
}

fn main() {
    let stream = std::env::var("C09_STREAM").unwrap_or_else(|_| "compose".into());
    match stream.as_str() {
        "compose" => { let fx = fixtures(); drive(gen_compose, move |i| run_compose(i, &fx)) }
        "unsafe" => { let fx = fixtures(); drive(gen_unsafe, move |i| run_compose(i, &fx)) }
        "slurm" => drive(gen_slurm, run_slurm),
        "blocks" => drive(gen_blocks, run_blocks),
        s => panic!("unknown C09_STREAM {}", s),
    }
}
