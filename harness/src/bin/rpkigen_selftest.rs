//! Self-test of the end-to-end repository generator (`rv_harness::rpkigen`).
//!
//! Builds a 2-TAL, depth-3 world with ROAs, ASPAs, router certificates, a GBR and an unknown file
//! spread over three rsync modules on two hosts, runs the real engine offline and compares the
//! payload with the reference evaluation of the ground truth; then injects every fault kind at
//! every kind of item once (fresh cache each time) and checks that exactly the expected payload
//! remains; then exercises histories (new version, regression, unreachable repository, missing
//! file with stored fallback), depth limits and key-reuse cycles.
//!
//! Usage: `rpkigen_selftest [-v]`.  Exit code 0 = all assertions hold.

use rv_harness::rpkigen::*;

fn base() -> Scen {
    let mut s = Scen::new();
    // TAL "alpha": root A (key 0) -> A1 (key 1, other module) -> A2 (key 2, other host) -> A3 (key 3)
    s.add_ta("alpha", "A", 0, "rpki.alpha.example", "repo",
             res(&["10.0.0.0/8", "192.168.0.0/16"], &["2001:db8::/32"], &[(64496, 64503)]));
    s.add_child("A", "A1", 1, "rpki.alpha.example", "members", res(&["10.1.0.0/16"], &["2001:db8:1::/48"], &[(64496, 64499)]));
    s.add_child("A1", "A2", 2, "rpki.gamma.example", "repo", res(&["10.1.2.0/24"], &[], &[(64497, 64498)]));
    s.add_child("A2", "A3", 3, "rpki.gamma.example", "repo", inherit());
    s.add_roa("A", "a.roa", 64496, &[("10.0.0.0/16", Some(20)), ("2001:db8::/32", None)]);
    s.add_aspa("A", "a.asa", 64500, &[64501, 64502]);
    s.add_roa("A1", "a1.roa", 64497, &[("10.1.0.0/16", Some(24))]);
    s.add_roa("A1", "a1b.roa", 64498, &[("10.1.128.0/17", None), ("2001:db8:1::/48", Some(64))]);
    s.add_router("A1", "a1r.cer", &[(64496, 64497)], 0);
    s.add_gbr("A1", "a1.gbr");
    s.add_other("A1", "notes.txt", "hello");
    s.add_roa("A2", "a2.roa", 64497, &[("10.1.2.0/24", Some(28))]);
    s.add_aspa("A2", "a2.asa", 64497, &[64496]);
    s.add_roa("A3", "a3.roa", 64498, &[("10.1.2.128/25", None)]);
    s.add_router("A3", "a3r.cer", &[(64498, 64498)], 1);
    // TAL "beta": root B (key 4) -> B1 (key 5)
    s.add_ta("beta", "B", 4, "rpki.beta.example", "repo", res(&["172.16.0.0/12"], &[], &[(65000, 65010)]));
    s.add_child("B", "B1", 5, "rpki.beta.example", "repo", res(&["172.16.0.0/16"], &[], &[(65000, 65001)]));
    s.add_roa("B", "b.roa", 65000, &[("172.16.0.0/12", Some(16))]);
    s.add_roa("B1", "b1.roa", 65001, &[("172.16.5.0/24", None)]);
    s.add_aspa("B1", "b1.asa", 65001, &[65000, 65002]);
    s
}

struct T { verbose: bool, checks: u32, failures: u32, runs: u32, build_ms: u128, run_ms: u128, sigs: u64 }

impl T {
    fn check(&mut self, name: &str, ok: bool, detail: impl FnOnce() -> String) {
        self.checks += 1;
        if !ok { self.failures += 1; println!("FAIL {}: {}", name, detail()); }
        else if self.verbose { println!("ok   {}", name); }
    }
    fn world(&mut self, spec: &RepoSpec) -> World {
        let t = std::time::Instant::now();
        let b = build(spec).unwrap_or_else(|e| panic!("build: {}", e));
        self.sigs += b.signatures;
        let w = World::new(b).expect("world");
        self.build_ms += t.elapsed().as_millis();
        w
    }
    fn run(&mut self, w: &World, cfg: &RunCfg) -> RunOutcome {
        let t = std::time::Instant::now();
        let o = w.run(cfg);
        self.run_ms += t.elapsed().as_millis();
        self.runs += 1;
        o
    }
    /// fresh world, one run, payload must equal the reference evaluation
    fn fresh(&mut self, name: &str, spec: &RepoSpec, cfg: &RunCfg) -> (RunOutcome, PayloadOut) {
        let w = self.world(spec);
        let out = self.run(&w, cfg);
        let exp = expected_fresh(&w.built.truth, &ServePlan::step(0), cfg);
        self.check(&format!("{}: run ok", name), out.result == "ok", || out.result.clone());
        self.check(&format!("{}: payload = ground truth", name), out.payload == exp,
                   || format!("\n  engine:   {:?}\n  expected: {:?}\n  log: {:#?}", out.payload, exp, out.log));
        (out, exp)
    }
}

fn count(p: &PayloadOut) -> usize { p.origins.len() + p.router_keys.len() + p.aspas.len() }

fn main() {
    act_as_rsync_if_child();
    let verbose = std::env::args().any(|a| a == "-v");
    let started = std::time::Instant::now();
    let mut t = T { verbose, checks: 0, failures: 0, runs: 0, build_ms: 0, run_ms: 0, sigs: 0 };
    let cfg = RunCfg::default();

    //--- 1. the fault-free world
    let s = base();
    let (out0, exp0) = t.fresh("base", &s.spec, &cfg);
    t.check("base: payload is what was described", exp0.origins.len() == 9 && exp0.router_keys.len() == 3 && exp0.aspas.len() == 3,
            || format!("{:?}", exp0));
    t.check("base: 6 valid points", out0.metrics.publication.valid_points == 6 && out0.metrics.publication.rejected_points == 0,
            || format!("{:?}", out0.metrics.publication));
    t.check("base: three modules fetched once", out0.fetched.len() == 4 && out0.metrics.rsync.iter().all(|r| r.1),
            || format!("{:?} {:?}", out0.fetched, out0.metrics.rsync));
    t.check("base: store holds 6 points", out0.store.len() == 6 && out0.store.iter().all(|p| p.manifest_number == Some(1)),
            || format!("{:?}", out0.store));
    t.check("base: refresh is the earliest nextUpdate", out0.refresh == Some(DAY), || format!("{:?}", out0.refresh));
    for threads in [4usize] {
        let c = RunCfg { validation_threads: threads, ..cfg.clone() };
        t.fresh(&format!("base threads={}", threads), &s.spec, &c);
    }
    {
        let c = RunCfg { enable_bgpsec: false, enable_aspa: false, limit_v4_len: Some(16), strict: true, ..cfg.clone() };
        let (o, _) = t.fresh("base strict, no bgpsec/aspa, v4 limit 16", &s.spec, &c);
        t.check("limits applied", o.payload.router_keys.is_empty() && o.payload.aspas.is_empty()
                && o.payload.origins.iter().all(|r| !r.v4 || r.len <= 16), || format!("{:?}", o.payload));
    }

    //--- 2. every fault kind at every kind of item, one at a time
    // (item, faults to try, does the fault remove something?)
    let object_targets: Vec<(&str, &str, &[Fault])> = vec![
        ("A1", "a1.roa", &Fault::FOR_SIGNED), ("A2", "a2.asa", &Fault::FOR_SIGNED), ("A1", "a1.gbr", &Fault::FOR_SIGNED),
        ("A1", "a1r.cer", &Fault::FOR_CERT), ("A1", "A2.cer", &Fault::FOR_CERT), ("A1", "notes.txt", &Fault::FOR_OTHER),
    ];
    for (ca, name, faults) in &object_targets {
        for f in faults.iter() {
            let mut s = base();
            s.object_mut(ca, 0, name).faults.push(*f);
            let label = format!("fault {:?} on {}/{}", f, ca, name);
            let (o, _) = t.fresh(&label, &s.spec, &cfg);
            let neutral = *name == "a1.gbr" || *name == "notes.txt";
            let whole_point = matches!(f, Fault::HashMismatch | Fault::Missing);
            if whole_point {
                // the whole publication point (and everything below) is dropped, siblings elsewhere stay
                let gone = if *ca == "A1" { "10.1." } else { "10.1.2." };
                t.check(&format!("{}: point {} dropped", label, ca),
                        !o.payload.origins.iter().any(|r| r.prefix.starts_with(gone)) && o.payload.origins.iter().any(|r| r.prefix == "10.0.0.0/16"),
                        || format!("{:?}", o.payload));
            } else if neutral || *f == Fault::Unlisted && *name == "notes.txt" {
                t.check(&format!("{}: payload unchanged", label), o.payload == exp0, || format!("{:?}", o.payload));
            } else {
                t.check(&format!("{}: something disappeared, siblings stay", label),
                        count(&o.payload) < count(&exp0) && o.payload.origins.iter().any(|r| r.prefix == "10.1.128.0/17"),
                        || format!("{:?}", o.payload));
            }
        }
    }
    for f in Fault::FOR_MANIFEST.iter() {
        let mut s = base();
        s.version_mut("A1", 0).mft.faults.push(*f);
        let label = format!("fault {:?} on manifest of A1", f);
        let (o, _) = t.fresh(&label, &s.spec, &cfg);
        t.check(&format!("{}: A1 and below gone, rest stays", label),
                !o.payload.origins.iter().any(|r| r.prefix.starts_with("10.1.")) && o.payload.origins.len() == 4 && o.payload.aspas.len() == 2,
                || format!("{:?}", o.payload));
        if *f == Fault::Stale {
            for pol in ["warn", "accept"] {
                let c = RunCfg { stale: pol.into(), ..cfg.clone() };
                let (o, _) = t.fresh(&format!("{} with stale={}", label, pol), &s.spec, &c);
                t.check(&format!("{} stale={}: accepted", label, pol), o.payload == exp0, || format!("{:?}", o.payload));
            }
        }
    }
    for f in Fault::FOR_CRL.iter() {
        let mut s = base();
        s.version_mut("B1", 0).crl.faults.push(*f);
        let label = format!("fault {:?} on CRL of B1", f);
        let (o, _) = t.fresh(&label, &s.spec, &cfg);
        t.check(&format!("{}: B1 gone, rest stays", label),
                !o.payload.origins.iter().any(|r| r.prefix == "172.16.5.0/24") && o.payload.origins.len() == 8,
                || format!("{:?}", o.payload));
    }
    for f in Fault::FOR_TA.iter() {
        let mut s = base();
        s.spec.tals[1].uris[0].certs[0].as_mut().unwrap().faults.push(*f);
        let label = format!("fault {:?} on TA certificate of beta", f);
        let (o, _) = t.fresh(&label, &s.spec, &cfg);
        t.check(&format!("{}: beta gone, alpha stays", label),
                !o.payload.origins.iter().any(|r| r.prefix.starts_with("172.")) && o.payload.origins.len() == 7,
                || format!("{:?}", o.payload));
    }
    {
        // second TAL URI with a good certificate rescues a TAL whose first URI is bad
        let mut s = base();
        let good = s.spec.tals[1].uris[0].clone();
        s.spec.tals[1].uris[0].certs[0].as_mut().unwrap().faults.push(Fault::WrongKey);
        s.spec.tals[1].uris.push(TaUriSpec { uri: "rsync://rpki.beta.example/repo/ta/beta-second.cer".into(), certs: good.certs });
        let (o, _) = t.fresh("TAL with a bad first and a good second URI", &s.spec, &cfg);
        t.check("second URI used", o.payload == exp0, || format!("{:?}", o.payload));
    }
    {
        // unsafe-vrps=reject: a rejected CA (A2: manifest missing) makes overlapping VRPs of others disappear
        let mut s = base();
        s.version_mut("A2", 0).mft.faults.push(Fault::Missing);
        let c = RunCfg { unsafe_vrps: "reject".into(), ..cfg.clone() };
        let (o, _) = t.fresh("unsafe-vrps=reject with A2 rejected", &s.spec, &c);
        t.check("overlapping VRP 10.1.0.0/16 filtered", !o.payload.origins.iter().any(|r| r.prefix == "10.1.0.0/16")
                && o.payload.origins.iter().any(|r| r.prefix == "10.1.128.0/17"), || format!("{:?}", o.payload));
    }

    //--- 3. depth limit and key-reuse cycles
    {
        let mut s = Scen::new();
        s.add_ta("deep", "D", 0, "deep.example", "repo", res(&["10.0.0.0/8"], &[], &[(1, 100)]));
        let ids = s.chain("D", "d", 6, &[1, 2, 3, 4, 5, 6], "deep.example", "repo", res(&["10.0.0.0/8"], &[], &[(1, 100)]));
        for (i, id) in ids.iter().enumerate() { s.add_roa(id, &format!("{}.roa", id), i as u32 + 1, &[(&format!("10.{}.0.0/16", i + 1), None)]); }
        let (o, _) = t.fresh("chain of 6 with max depth 32", &s.spec, &cfg);
        t.check("all six levels", o.payload.origins.len() == 6, || format!("{:?}", o.payload));
        let c = RunCfg { max_ca_depth: 3, ..cfg.clone() };
        let (o, _) = t.fresh("chain of 6 with max depth 3", &s.spec, &c);
        t.check("only three levels", o.payload.origins.len() == 3, || format!("{:?}", o.payload));
        // a certificate for the root's key and point below d2 (cycle), and one reusing d1's key for a new point
        s.add_ca_cert("d2", "back-to-root.cer", "D", res(&["10.0.0.0/8"], &[], &[(1, 100)]));
        s.add_child("d3", "reuse", 1, "deep.example", "repo", res(&["10.0.0.0/8"], &[], &[(1, 100)]));
        s.add_roa("reuse", "reuse.roa", 99, &[("10.99.0.0/16", None)]);
        let (o, _) = t.fresh("cycle and key reuse", &s.spec, &cfg);
        t.check("cycle pruned, reused key not followed", o.payload.origins.len() == 6 && o.metrics.publication.invalid_certs == 2,
                || format!("{:?} {:?}", o.payload, o.metrics.publication));
    }

    //--- 4. histories on one cache
    {
        let mut s = base();
        let v = s.push_version("A1");
        s.add_roa("A1", "new.roa", 64499, &[("10.1.64.0/18", None)]);      // lands in both versions ...
        s.spec.ca_mut("A1").unwrap().versions[0].objects.retain(|o| o.name != "new.roa");   // ... keep it in v1 only
        assert_eq!(v, 1);
        let w = t.world(&s.spec);
        let r1 = t.run(&w, &cfg);
        t.check("history: run 1 = version 0", r1.payload == exp0, || format!("{:?}", r1.payload));
        w.serve_step(1).unwrap();
        let r2 = t.run(&w, &cfg);
        t.check("history: run 2 sees the new ROA", r2.payload.origins.iter().any(|r| r.prefix == "10.1.64.0/18")
                && r2.payload.origins.len() == 10, || format!("{:?}", r2.payload));
        let a1 = |o: &RunOutcome| o.store.iter().find(|p| p.manifest_uri.ends_with("/A1/A1.mft")).cloned();
        t.check("history: stored manifest number 2", a1(&r2).and_then(|p| p.manifest_number) == Some(2), || format!("{:?}", a1(&r2)));
        // regression: serve version 0 again -> the stored version 1 stays in use
        w.serve_step(0).unwrap();
        let r3 = t.run(&w, &cfg);
        t.check("history: number regression ignored", r3.payload == r2.payload && a1(&r3).and_then(|p| p.manifest_number) == Some(2),
                || format!("{:?}", r3.payload));
        // unreachable module: the old copy keeps being used
        w.serve(&ServePlan::step(1).unreachable("rpki.alpha.example/members")).unwrap();
        let r4 = t.run(&w, &cfg);
        t.check("history: unreachable module -> same payload", r4.payload == r2.payload
                && r4.metrics.rsync.iter().any(|m| m.0.contains("members") && !m.1), || format!("{:?} {:?}", r4.payload, r4.metrics.rsync));
        // everything unreachable and nothing collected: store only
        w.serve(&ServePlan { step: 1, unreachable: w.modules(), ..Default::default() }).unwrap();
        let r5 = t.run(&w, &cfg);
        t.check("history: all unreachable -> stored data", r5.payload == r2.payload, || format!("{:?}", r5.payload));
        let r6 = t.run(&w, &RunCfg { no_update: true, ..cfg.clone() });
        t.check("history: no collector -> stored data", r6.payload == r2.payload, || format!("{:?}", r6.payload));
    }
    {
        // version 2 lacks a listed file: the stored version 1 is used
        let mut s = base();
        s.push_version("B1");
        s.object_mut("B1", 1, "b1.roa").faults.push(Fault::Missing);
        let w = t.world(&s.spec);
        let r1 = t.run(&w, &cfg);
        w.serve_step(1).unwrap();
        let r2 = t.run(&w, &cfg);
        t.check("history: incomplete update falls back to the store",
                r1.payload == exp0 && r2.payload.origins == exp0.origins
                    && r2.store.iter().any(|p| p.manifest_uri.ends_with("/B1/B1.mft") && p.manifest_number == Some(1)),
                || format!("{:?}\n{:?}", r2.payload, r2.store));
    }

    let total = started.elapsed();
    println!("rpkigen selftest: {} checks, {} failures, {} engine runs; build {} ms ({} signatures), runs {} ms, total {} ms",
             t.checks, t.failures, t.runs, t.build_ms, t.sigs, t.run_ms, total.as_millis());
    if t.failures > 0 { std::process::exit(1) }
}
