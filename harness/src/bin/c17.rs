//! C17: /json-delta/notify long poll vs validation cycles under controlled schedules (coq/C17).
//! Events: "I" run a validation cycle up to the point after the data was installed (hook point
//! server.updated), "N" let it finish (mark done + notify), "A" start the handler: first poll, stopped
//! at hook point http.notify.checked (after the version check), "P" let the handler continue / poll again.
use std::future::Future;
use std::pin::Pin;
use std::sync::atomic::{AtomicUsize, Ordering};
use std::sync::Arc;
use std::task::{Context, Poll, Wake, Waker};
use std::time::Duration;
use routinator::operation::Server;
use routinator::verif as hooks;
use rv_harness::srvenv::*;
use rv_harness::util::*;
use serde_json::{json, Value};

struct CountWaker(AtomicUsize);
impl Wake for CountWaker { fn wake(self: Arc<Self>) { self.0.fetch_add(1, Ordering::SeqCst); } }

fn merges(a: &[&'static str], b: &[&'static str]) -> Vec<Vec<&'static str>> {
    if a.is_empty() { return vec![b.to_vec()] }
    if b.is_empty() { return vec![a.to_vec()] }
    let mut res = Vec::new();
    for mut m in merges(&a[1..], b) { m.insert(0, a[0]); res.push(m); }
    for mut m in merges(a, &b[1..]) { m.insert(0, b[0]); res.push(m); }
    res
}

fn gen(rng: &mut Rng, tier: &str) -> Vec<(String, Value)> {
    let mut cases = Vec::new();
    let writer: [&'static str; 6] = ["I", "N", "I", "N", "I", "N"];
    let handler: [&'static str; 4] = ["A", "P", "P", "P"];
    let maxk = if tier == "thorough" { 3 } else { 2 };
    for kind in ["current", "older", "none", "foreign"] {
        for k in 0..=maxk {
            for m in merges(&writer[..2 * k], &handler) {
                if *m.last().unwrap() != "P" { continue }
                cases.push((format!("{}.cycles{}", kind, k), json!({"pre": 2, "kind": kind, "events": m})));
            }
        }
    }
    // a few with different history length before the request
    for _ in 0..10 {
        let pre = rng.range(1, 4);
        let k = rng.range(0, 2) as usize;
        let ms = merges(&writer[..2 * k], &handler);
        let m = rng.pick(&ms).clone();
        if *m.last().unwrap() != "P" { continue }
        cases.push(("random".into(), json!({"pre": pre, "kind": "current", "events": m})));
    }
    cases
}

fn data(i: u64) -> Value { json!({"origins": [["10.0.0.0/8", 24, 64500 + (i % 2)]]}) }

type Fut = Pin<Box<dyn Future<Output = HttpResp> + Send>>;

fn run(input: &Value) -> CaseOut {
    let mut env = Env::new(|c| { c.history_size = 10; });
    let pre = input["pre"].as_u64().unwrap();
    let mut n = 0u64;
    for _ in 0..pre { env.cycle(&data(n), 0, false).unwrap(); n += 1; }
    let (session, serial) = env.history.read().session_and_serial();
    let v0 = u32::from(serial) as u64;
    let kind = input["kind"].as_str().unwrap();
    let (query, presented): (String, Option<u64>) = match kind {
        "current" => (format!("?session={}&serial={}", session, v0), Some(v0)),
        "older" => (format!("?session={}&serial={}", session, v0 - 1), Some(v0 - 1)),
        "foreign" => (format!("?session={}&serial={}", session + 1, v0), None),
        _ => (String::new(), None),
    };
    let events: Vec<String> = input["events"].as_array().unwrap().iter().map(|e| e.as_str().unwrap().to_string()).collect();

    let cw = Arc::new(CountWaker(AtomicUsize::new(0)));
    let waker = Waker::from(cw.clone());
    let mut fut: Option<Fut> = None;
    let mut first_poll: Option<std::thread::JoinHandle<(Fut, Option<HttpResp>)>> = None;
    let mut resp: Option<HttpResp> = None;
    let mut wakes_at_last_poll = 0usize;
    let mut model_events: Vec<&str> = Vec::new();
    let mut infra_error: Option<String> = None;

    std::thread::scope(|scope| {
        let mut writer: Option<std::thread::ScopedJoinHandle<()>> = None;
        for e in &events {
            match e.as_str() {
                "I" => {
                    hooks::arm("server.updated");
                    let (config, engine, history, mut notify) = (&env.config, &env.engine, &env.history, env.notify.clone());
                    let spec = data(n); n += 1;
                    writer = Some(scope.spawn(move || {
                        let ex = slurm_of(&spec);
                        Server::verif_process_once(config, engine, history, &mut notify, &ex, false).unwrap();
                    }));
                    if !hooks::wait_arrived("server.updated", Duration::from_secs(20)) { infra_error = Some("writer did not reach server.updated".into()); }
                    model_events.push("Install");
                }
                "N" => {
                    hooks::release("server.updated");
                    if let Some(w) = writer.take() { w.join().unwrap(); }
                    model_events.push("Notify");
                }
                "A" => {
                    hooks::arm("http.notify.checked");
                    let http = env.http.clone();
                    let req = Env::request(&format!("/json-delta/notify{}", query), &[], false);
                    let mut f: Fut = Box::pin(async move { collect(http.handle_request(req).await).await });
                    let w = waker.clone();
                    wakes_at_last_poll = cw.0.load(Ordering::SeqCst);
                    first_poll = Some(std::thread::spawn(move || {
                        let mut cx = Context::from_waker(&w);
                        let r = match f.as_mut().poll(&mut cx) { Poll::Ready(r) => Some(r), Poll::Pending => None };
                        (f, r)
                    }));
                    if !hooks::wait_arrived("http.notify.checked", Duration::from_secs(20)) { infra_error = Some("handler did not reach http.notify.checked".into()); }
                    model_events.push("H"); model_events.push("H");
                }
                "P" => {
                    if let Some(t) = first_poll.take() {
                        hooks::release("http.notify.checked");
                        // later passages through the point (a handler that checks again) must not block the polls below
                        hooks::disarm("http.notify.checked");
                        let (f, r) = t.join().unwrap();
                        if r.is_some() { resp = r; } else { fut = Some(f); }
                    } else if resp.is_none() {
                        if let Some(f) = fut.as_mut() {
                            wakes_at_last_poll = cw.0.load(Ordering::SeqCst);
                            let mut cx = Context::from_waker(&waker);
                            if let Poll::Ready(r) = f.as_mut().poll(&mut cx) { resp = Some(r); }
                        }
                    }
                    model_events.push("H");
                }
                _ => panic!("bad event"),
            }
        }
        hooks::disarm("server.updated");
        hooks::disarm("http.notify.checked");
        if let Some(w) = writer.take() { w.join().unwrap(); }
    });
    if let Some(t) = first_poll.take() { let _ = t.join(); }
    if let Some(e) = infra_error { panic!("{}", e); }

    let done = resp.is_some();
    let woken_since = cw.0.load(Ordering::SeqCst) > wakes_at_last_poll;
    let stuck = !done && !woken_since;
    let resp_serial: Option<u64> = resp.as_ref().and_then(|r| {
        if r.status != 200 { return Some(999_000_000 + r.status as u64) }
        serde_json::from_slice::<Value>(&r.body).ok().and_then(|v| v["serial"].as_u64())
    });
    let final_serial = u32::from(env.history.read().serial()) as u64;
    let obs = json!({"v0": v0, "presented": presented, "done": done, "resp_serial": resp_serial, "stuck": stuck,
        "final_serial": final_serial, "wakes": cw.0.load(Ordering::SeqCst)});
    let coq = format!("{{| c_v0 := {}; c_presented := {}; c_events := [{}]; i_done := {}; i_resp := {}; i_stuck := {} |}}",
        v0, coq_opt(presented.map(|p| p.to_string())), model_events.join("; "), coq_bool(done),
        coq_opt(resp_serial.map(|p| p.to_string())), coq_bool(stuck));
    CaseOut { obs, coq, nontrivial: events.iter().any(|e| e == "I") && presented.is_some() }
}

fn main() { drive(gen, run) }
