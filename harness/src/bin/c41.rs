//! C41: a broken repository affects only its own subtree - real engine runs vs the Coq model (coq/C41).
//!
//! A case = one world (real signed objects built by `rv_harness::rpkigen`: 2 TALs, 3-4 rsync modules
//! on 2-3 hosts, CAs whose children live in other repositories), one repository `r` (rsync module)
//! and one way of breaking it.  Two twin worlds are built from the same description: the *baseline*
//! and the *faulty* one, which differs only inside `r` (object / manifest / CRL / TA-certificate
//! faults, module unreachable, module empty, rsync exiting with an error, a partial copy followed by
//! an error exit, rsync hanging until Routinator's timeout kills it).  Mode `fresh`: one run each on
//! an empty cache.  Mode `history`: both do a fault-free first run, the second run sees a new version
//! of everything in `r` - broken in the faulty world.  Observation = the payload of the compared run
//! of both worlds as item tags.
//!
//! The Coq case carries, for both runs, the *views* of all publication points (what the collector's
//! copy and the store hold, with the verdict bits of the generator's ground truth), the static layout
//! (CA -> repository, TAL URIs, position and resources of every CA, position of every item) and the
//! two observed payloads.  `abstract_run` below derives the views; in history mode it starts from the
//! *observed* cache after the first real run (store listing, modules fetched).  Trusted: that
//! abstraction, the tag table.
use std::collections::{BTreeSet, HashMap};
use std::sync::{Arc, Mutex};
use rv_harness::rpkigen::*;
use rv_harness::util::*;
use serde::{Deserialize, Serialize};
use serde_json::{json, Value};

//------------ input -------------------------------------------------------------

#[derive(Serialize, Deserialize, Clone, Debug, PartialEq)]
struct FaultAt {
    /// CA id (for `mft`, `crl`, `obj:<name>`) or TAL name (for `ta:<uri index>`).
    at: String,
    /// "mft" | "crl" | "obj:<file name>" | "ta:<uri index>"
    target: String,
    fault: Fault,
}

#[derive(Serialize, Deserialize, Clone, Debug, PartialEq)]
#[serde(tag = "kind")]
enum Break {
    /// faults at build time inside r
    Faults { faults: Vec<FaultAt> },
    /// every object, manifest and CRL of every CA in r is garbage / missing
    All { fault: Fault },
    /// `ServePlan::unreachable`: the rsync stand-in exits with status 10 without touching the copy
    Unreachable,
    /// the module is there but none of the CAs' files are
    Empty,
    /// rsync exits with `code` without touching the copy
    Exit { code: i32 },
    /// rsync is killed by a signal
    Killed,
    /// rsync leaves only manifests and CRLs in the copy and exits with status 23
    Partial,
    /// rsync hangs; Routinator's rsync-timeout (5 s in these runs) kills it
    Timeout,
    /// a chain of `depth` further CAs (distinct keys, or with `cycle` the last one re-using the first one's key)
    /// below the first CA published in r, all published in r: with a small max-ca-depth its tail is too deep
    Deep { depth: usize, cycle: bool },
}

#[derive(Serialize, Deserialize, Clone, Debug)]
struct Input {
    spec: RepoSpec,
    r: String,
    cfg: RunCfg,
    /// "fresh" | "history"
    mode: String,
    brk: Break,
}

//------------ twin descriptions ------------------------------------------------------

fn cas_in<'a>(spec: &'a RepoSpec, r: &str) -> Vec<String> {
    spec.cas.iter().filter(|c| module_of(&c.repo) == r).map(|c| c.id.clone()).collect()
}

/// (baseline description, faulty description, step compared, plan of the compared faulty run)
fn twins(inp: &Input) -> (RepoSpec, RepoSpec, usize) {
    let mut base = inp.spec.clone();
    let history = inp.mode == "history";
    let inside = cas_in(&base, &inp.r);
    let v = if history { 1 } else { 0 };
    if history {
        // a new version of everything in r (and a second entry for TA certificates served from r)
        for ca in &mut base.cas {
            if inside.contains(&ca.id) {
                let mut nv = ca.versions.last().unwrap().clone();
                nv.mft.number += 1;
                nv.crl.number += 1;
                nv.mft.this_update += 600;
                nv.crl.this_update += 600;
                nv.mft.ee.serial += 5000;
                ca.versions.push(nv);
            }
        }
        for t in &mut base.tals { for u in &mut t.uris { if module_of(&u.uri) == inp.r { let c = u.certs[0].clone(); u.certs.push(c); } } }
    }
    let mut bad = base.clone();
    match &inp.brk {
        Break::Faults { faults } => {
            for f in faults {
                if let Some(idx) = f.target.strip_prefix("ta:") {
                    let ui: usize = idx.parse().expect("uri index");
                    let t = bad.tals.iter_mut().find(|t| t.name == f.at).expect("tal");
                    let n = t.uris[ui].certs.len();
                    t.uris[ui].certs[(v).min(n - 1)].as_mut().expect("ta cert").faults.push(f.fault);
                } else {
                    let ca = bad.ca_mut(&f.at).expect("ca");
                    let n = ca.versions.len();
                    let ver = &mut ca.versions[v.min(n - 1)];
                    match f.target.as_str() {
                        "mft" => ver.mft.faults.push(f.fault),
                        "crl" => ver.crl.faults.push(f.fault),
                        t => {
                            let name = t.strip_prefix("obj:").expect("target");
                            ver.objects.iter_mut().find(|o| o.name == name).expect("object").faults.push(f.fault);
                        }
                    }
                }
            }
        }
        Break::All { fault } => {
            for ca in &mut bad.cas {
                if inside.contains(&ca.id) {
                    let n = ca.versions.len();
                    let ver = &mut ca.versions[v.min(n - 1)];
                    ver.mft.faults.push(*fault);
                    ver.crl.faults.push(*fault);
                    for o in &mut ver.objects { if !matches!(o.kind, ObjKind::Other { .. }) || *fault == Fault::Missing { o.faults.push(*fault); } }
                }
            }
        }
        Break::Deep { depth, cycle } => {
            let parent = inside.first().expect("a CA inside r").clone();
            let (host, module) = { let m = inp.r.split_once('/').expect("host/module"); (m.0.to_string(), m.1.to_string()) };
            let mut s = Scen::new();
            s.spec = bad;
            for _ in 0..20000 { s.serial(); }     // serials of the new certificates away from the existing ones
            let mut keys: Vec<usize> = vec![7, 8, 9, 10, 11];
            keys.truncate((*depth).min(5));
            if *cycle && *depth >= 2 { let k0 = keys[0]; let n = keys.len(); keys[n - 1] = k0; }
            let ids = s.chain(&parent, "Z", *depth, &keys, &host, &module, inherit());
            // payload at every level, so that a chain cut at the wrong place shows
            for (i, id) in ids.iter().enumerate() { s.add_roa(id, &format!("z{}.roa", i), 64496, &[(&format!("10.0.{}.0/24", 100 + i), None)]); }
            bad = s.spec;
        }
        _ => { }
    }
    (base, bad, v)
}

//------------ abstraction of a run ------------------------------------------------------

#[derive(Clone, Debug, PartialEq)]
struct Copy { ver: usize, partial: bool }

/// The cache before a run, as far as the views need it.
#[derive(Clone, Debug, Default)]
struct Cache {
    /// CA id -> what the collector's directory holds for it (absent: nothing was ever copied)
    copy: HashMap<String, Option<Copy>>,
    /// CA id -> stored version
    stored: HashMap<String, usize>,
    /// TA URI -> step of the certificate in the collector's copy (None: copied, no file)
    ta_copy: HashMap<String, Option<usize>>,
    /// TA URI -> step of the stored certificate
    ta_stored: HashMap<String, usize>,
}

/// How the compared run sees the modules.
struct Net<'a> { step: usize, r: &'a str, brk: Option<&'a Break> }

impl Net<'_> {
    fn broken(&self, module: &str) -> Option<&Break> { if module == self.r { self.brk } else { None } }
    /// the copy of the module is replaced by what is served
    fn fetch_ok(&self, module: &str) -> bool {
        !matches!(self.broken(module), Some(Break::Unreachable | Break::Exit { .. } | Break::Killed | Break::Timeout))
    }
}

struct Ids { ca: HashMap<String, u64>, module: HashMap<String, u64> }

#[derive(Clone, Debug)]
struct Rg { v4: bool, lo: u128, hi: u128 }
fn rg_coq(r: &Rg) -> String { format!("{{| rg_v4 := {}; rg_lo := {}; rg_hi := {} |}}", coq_bool(r.v4), r.lo, r.hi) }
fn ranges_of(res: &ResTruth) -> Vec<Rg> {
    let mut v: Vec<Rg> = res.v4.iter().map(|(a, b)| Rg { v4: true, lo: a.0, hi: b.0 }).collect();
    v.extend(res.v6.iter().map(|(a, b)| Rg { v4: false, lo: a.0, hi: b.0 }));
    v
}
fn vrp_range(r: &Vrp) -> Rg {
    let width: u32 = if r.v4 { 32 } else { 128 };
    let host = if r.len == 0 { if r.v4 { 0xFFFF_FFFFu128 } else { u128::MAX } } else if r.len as u32 == width { 0 } else { (1u128 << (width - r.len as u32)) - 1 };
    Rg { v4: r.v4, lo: r.addr.0, hi: r.addr.0 | host }
}

/// item key as it can be recovered from a payload
#[derive(Clone, Debug, PartialEq, Eq, Hash, PartialOrd, Ord)]
enum Key { Origin(String, u8, u32), RouterKey(String, u32, String), Aspa(u32, Vec<u32>) }

struct Tags { of: HashMap<Key, u64>, info: Vec<(u64, String /*owner*/, Option<Rg>)> }

fn kind_matches(name: &str, obj: &ObjTruth) -> bool {
    match obj {
        ObjTruth::Ca(_) | ObjTruth::Router { .. } => name.ends_with(".cer"),
        ObjTruth::Roa { .. } => name.ends_with(".roa"),
        ObjTruth::Aspa { .. } => name.ends_with(".asa"),
        ObjTruth::Gbr { .. } => name.ends_with(".gbr"),
        ObjTruth::Other { .. } => !(name.ends_with(".cer") || name.ends_with(".roa") || name.ends_with(".asa") || name.ends_with(".gbr")),
    }
}

/// items of the valid objects of a version: (key, prefix range)
fn version_items(v: &VersionTruth, cfg: &RunCfg) -> Vec<(Key, Option<Rg>)> {
    let mut out = Vec::new();
    for e in v.entries.iter().filter(|e| e.listed) {
        if !kind_matches(&e.name, &e.obj) || !e.obj.all_good() { continue }
        match &e.obj {
            ObjTruth::Roa { vrps, .. } => for r in vrps {
                let lim = if r.v4 { cfg.limit_v4_len } else { cfg.limit_v6_len };
                if lim.map(|l| r.len > l).unwrap_or(false) { continue }
                out.push((Key::Origin(r.prefix.clone(), r.max_len, r.asn), Some(vrp_range(r))));
            },
            ObjTruth::Router { keys, .. } => if cfg.enable_bgpsec {
                for k in keys { out.push((Key::RouterKey(k.key_id.clone(), k.asn, k.key_info.clone()), None)); }
            },
            ObjTruth::Aspa { customer, providers, .. } => if cfg.enable_aspa {
                let mut p = providers.clone(); p.sort();
                out.push((Key::Aspa(*customer, p), None));
            },
            _ => { }
        }
    }
    out
}

fn version_coq(v: &VersionTruth, cfg: &RunCfg, ids: &Ids, tags: &Tags) -> String {
    let items = version_items(v, cfg);
    let its = coq_list(items.iter(), |(k, rg)| {
        let t = tags.of[k];
        match rg { Some(r) => format!("IOrigin {} {}", t, rg_coq(r)), None => format!("IOther {}", t) }
    });
    let mut ch = Vec::new();
    for e in v.entries.iter().filter(|e| e.listed) {
        if let ObjTruth::Ca(c) = &e.obj {
            if !kind_matches(&e.name, &e.obj) { continue }
            let id = match c.subject.as_ref().and_then(|s| ids.ca.get(s)) { Some(i) => *i, None => continue };
            ch.push(format!("{{| ch_id := {}; ch_ok := {}; ch_res := {} |}}", id, coq_bool(c.all_good()),
                            coq_list(ranges_of(&c.effective).iter(), rg_coq)));
        }
    }
    format!("{{| v_items := {}; v_children := [{}] |}}", its, ch.join("; "))
}

/// key of the (single) certificate through which each CA is reached
fn incoming_keys(truth: &Truth) -> HashMap<String, usize> {
    let mut m = HashMap::new();
    for t in &truth.tals { for u in &t.uris { for c in u.certs.iter().flatten() {
        if let Some(s) = &c.subject { m.entry(s.clone()).or_insert(c.key); }
    } } }
    for ca in &truth.cas { for v in &ca.versions { for e in &v.entries {
        if let ObjTruth::Ca(c) = &e.obj { if let Some(s) = &c.subject { m.entry(s.clone()).or_insert(c.key); } }
    } } }
    m
}

/// The views of one run (Coq `dyn`) and the cache after it as far as it is determined by what was served.
fn abstract_run(truth: &Truth, is_root: &BTreeSet<String>, cfg: &RunCfg, cache: &Cache, net: &Net, ids: &Ids, tags: &Tags) -> String {
    let stale_reject = cfg.stale == "reject";
    let inkeys = incoming_keys(truth);
    // trust anchors
    let mut ta_ok = Vec::new();
    let mut root_key: HashMap<String, usize> = HashMap::new();   // root CA -> key of the TA certificate used
    for tal in &truth.tals {
        let mut oks = Vec::new();
        let mut chosen = false;
        for u in &tal.uris {
            let n = u.certs.len();
            let copy: Option<usize> = if net.fetch_ok(&u.module) {
                match net.broken(&u.module) {
                    Some(Break::Partial) => None,
                    _ => if u.certs[net.step.min(n - 1)].is_some() { Some(net.step.min(n - 1)) } else { None },
                }
            } else { cache.ta_copy.get(&u.uri).cloned().flatten() };
            let from_copy = copy.and_then(|s| u.certs[s].as_ref()).filter(|c| c.decodes);
            let used = match from_copy {
                Some(c) => Some(c),
                None => cache.ta_stored.get(&u.uri).and_then(|s| u.certs[*s].as_ref()).filter(|c| c.decodes),
            };
            let ok = used.map(|c| c.key == tal.key && c.valid_now && c.sig_ok).unwrap_or(false);
            if ok && !chosen {
                chosen = true;
                if let Some(c) = used { if let Some(s) = &c.subject { root_key.insert(s.clone(), c.key); } }
            }
            oks.push(ok);
        }
        ta_ok.push(oks);
    }
    // publication points
    let mut views = Vec::new();
    for ca in &truth.cas {
        let copy: Option<Copy> = if net.fetch_ok(&ca.module) {
            match net.broken(&ca.module) {
                Some(Break::Empty) => None,
                Some(Break::Partial) => Some(Copy { ver: net.step.min(ca.versions.len() - 1), partial: true }),
                _ => Some(Copy { ver: net.step.min(ca.versions.len() - 1), partial: false }),
            }
        } else { cache.copy.get(&ca.id).cloned().flatten() };
        let stored = cache.stored.get(&ca.id).cloned();
        // roots: the key of the TA certificate this run uses (if none is usable the point is not visited)
        let key_ok = if is_root.contains(&ca.id) { root_key.get(&ca.id).map(|k| *k == ca.key).unwrap_or(true) }
                     else { inkeys.get(&ca.id).map(|k| *k == ca.key).unwrap_or(false) };
        let collected = match &copy {
            None => "None".to_string(),
            Some(c) => {
                let v = &ca.versions[c.ver];
                let m = &v.mft;
                let cr = &v.crl;
                if !m.present { "None".to_string() } else {
                    let same = stored.map(|s| ca.versions[s].mft.sha256 == m.sha256).unwrap_or(false);
                    let mft_ok = m.decodes && key_ok && m.content_sig_ok && m.ee.sig_ok && m.ee.valid_now && m.ee.res_within
                        && !m.premature && !(m.stale && stale_reject)
                        && m.ee.crl_uri_ok && cr.listed && cr.present && cr.hash_ok && cr.decodes && cr.sig_ok
                        && !(cr.stale && stale_reject) && !m.ee.revoked;
                    let newer = match stored {
                        None => true,
                        Some(s) => m.number > ca.versions[s].mft.number && m.this_update > ca.versions[s].mft.this_update,
                    };
                    let files_ok = !v.entries.iter().any(|e| e.listed && (c.partial || !(e.present && e.hash_ok)));
                    format!("(Some {{| co_same := {}; co_mft_ok := {}; co_newer := {}; co_files_ok := {}; co_ver := {} |}})",
                            coq_bool(same), coq_bool(mft_ok), coq_bool(newer), coq_bool(files_ok), version_coq(v, cfg, ids, tags))
                }
            }
        };
        let st = match stored {
            None => "None".to_string(),
            Some(s) => format!("(Some (true, {}))", version_coq(&ca.versions[s], cfg, ids, tags)),
        };
        views.push(format!("({}, {{| vw_collected := {}; vw_stored := {} |}})", ids.ca[&ca.id], collected, st));
    }
    format!("{{| d_ta_ok := {}; d_views := [{}] |}}",
            coq_list(ta_ok.iter(), |o| coq_list(o.iter(), |b| coq_bool(*b).to_string())), views.join("; "))
}

/// The cache after a fault-free run at `step`, read off the real run's outcome.
fn cache_after(truth: &Truth, out: &RunOutcome, step: usize) -> Cache {
    let fetched: BTreeSet<String> = out.fetched.iter().cloned().collect();
    let mut c = Cache::default();
    for ca in &truth.cas {
        if fetched.contains(&ca.module) { c.copy.insert(ca.id.clone(), Some(Copy { ver: step.min(ca.versions.len() - 1), partial: false })); }
        if let Some(p) = out.store.iter().find(|p| p.manifest_uri == ca.mft_uri) {
            if let Some(sha) = &p.manifest_sha256 {
                if let Some(k) = ca.versions.iter().position(|v| &v.mft.sha256 == sha) { c.stored.insert(ca.id.clone(), k); }
            }
        }
    }
    for t in &truth.tals { for u in &t.uris {
        if fetched.contains(&u.module) {
            let s = step.min(u.certs.len() - 1);
            let has = u.certs[s].is_some();
            c.ta_copy.insert(u.uri.clone(), if has { Some(s) } else { None });
            if u.certs[s].as_ref().map(|x| x.decodes).unwrap_or(false) { c.ta_stored.insert(u.uri.clone(), s); }
        }
    } }
    c
}

//------------ running ---------------------------------------------------------------------

fn payload_keys(p: &PayloadOut) -> Vec<Key> {
    let mut v: Vec<Key> = p.origins.iter().map(|o| Key::Origin(o.prefix.clone(), o.max_len, o.asn)).collect();
    v.extend(p.router_keys.iter().map(|k| Key::RouterKey(k.key_id.clone(), k.asn, k.key_info.clone())));
    v.extend(p.aspas.iter().map(|a| { let mut p = a.providers.clone(); p.sort(); Key::Aspa(a.customer, p) }));
    v
}

fn wrapper_script(world: &World, r: &str, brk: &Break) -> std::path::PathBuf {
    let exe = std::env::current_exe().unwrap();
    let action = match brk {
        Break::Exit { code } => format!("exit {}", code),
        Break::Killed => "kill -9 $$".to_string(),
        Break::Timeout => "sleep 60; exit 30".to_string(),
        Break::Partial => format!(
            "mkdir -p \"$dst\"; find \"$dst\" -type f ! -name '*.mft' ! -name '*.crl' -delete; \
             cd '{}/{}' && find . -type f \\( -name '*.mft' -o -name '*.crl' \\) | while read f; do mkdir -p \"$dst/$(dirname \"$f\")\"; cp \"$f\" \"$dst/$f\"; done; exit 23",
            world.served_dir().display(), r),
        _ => unreachable!(),
    };
    let script = format!(
        "#!/bin/sh\ncase \"$1\" in -h|--help|--version) echo wrapper; exit 0;; esac\nsrc=\"\"; dst=\"\"\nfor a in \"$@\"; do src=\"$dst\"; dst=\"$a\"; done\n\
         case \"$src\" in rsync://{}/*) echo \"$src\" | sed 's|^rsync://||' >> '{}'; {};; esac\nexec '{}' \"$@\"\n",
        r, world.dir.join("fetch.log").display(), action, exe.display());
    let path = world.dir.join("wrapper.sh");
    std::fs::write(&path, script).unwrap();
    #[cfg(unix)]
    { use std::os::unix::fs::PermissionsExt; std::fs::set_permissions(&path, std::fs::Permissions::from_mode(0o755)).unwrap(); }
    path
}

struct RunResult { dyn_coq: String, payload: Vec<Key>, result: String, rejected_points: u32 }

/// Builds the world, performs the run(s) and abstracts the compared run.
fn run_world(spec: &RepoSpec, inp: &Input, step: usize, brk: Option<&Break>, ids: &Ids, tags: &Tags) -> RunResult {
    let built = build(spec).unwrap_or_else(|e| panic!("build: {}", e));
    let world = World::new(built).expect("world");
    let truth = &world.built.truth;
    let mut cache = Cache::default();
    if inp.mode == "history" {
        let first = world.run(&inp.cfg);
        if first.result != "ok" {
            // the fault-free first run failed as a whole: report it as this world's observation (never "ok")
            let net = Net { step, r: &inp.r, brk };
            let is_root: BTreeSet<String> = spec.tals.iter().flat_map(|t| t.uris.iter()).flat_map(|u| u.certs.iter().flatten())
                .map(|c| c.ca.clone()).collect();
            return RunResult { dyn_coq: abstract_run(truth, &is_root, &inp.cfg, &cache, &net, ids, tags), payload: vec![],
                               result: format!("first run: {}", first.result), rejected_points: 0 }
        }
        cache = cache_after(truth, &first, 0);
    }
    let net = Net { step, r: &inp.r, brk };
    let is_root: BTreeSet<String> = spec.tals.iter().flat_map(|t| t.uris.iter()).flat_map(|u| u.certs.iter().flatten())
        .map(|c| c.ca.clone()).collect();
    let dyn_coq = abstract_run(truth, &is_root, &inp.cfg, &cache, &net, ids, tags);
    let mut plan = ServePlan::step(step);
    let out = match brk {
        Some(Break::Unreachable) => { plan = plan.unreachable(&inp.r); world.serve(&plan).unwrap(); world.run(&inp.cfg) }
        Some(Break::Empty) => {
            for id in cas_in(spec, &inp.r) { plan = plan.with_version(&id, None); }
            world.serve(&plan).unwrap(); world.run(&inp.cfg)
        }
        Some(b @ (Break::Exit { .. } | Break::Killed | Break::Partial | Break::Timeout)) => {
            assert!(rsync_mode() != RsyncMode::InProcess, "this break needs RPKIGEN_RSYNC=self (stream cmd)");
            world.serve(&plan).unwrap();
            let w = wrapper_script(&world, &inp.r, b);
            let timeout = matches!(b, Break::Timeout);
            let mut o;
            let mut tries = 0;
            loop {
                o = world.run_with(&inp.cfg, |c| {
                    c.rsync_command = w.display().to_string();
                    if timeout { c.rsync_timeout = Some(std::time::Duration::from_secs(TIMEOUT_SECS)); }
                });
                tries += 1;
                // "Text file busy": another thread forked while the script was open for writing; nothing ran yet
                if !o.result.starts_with("engine:") || tries >= 5 { break }
                std::thread::sleep(std::time::Duration::from_millis(50));
            }
            o
        }
        _ => { world.serve(&plan).unwrap(); world.run(&inp.cfg) }
    };
    if std::env::var_os("C41_DEBUG").is_some() {
        eprintln!("--- run brk={:?} result={} fetched={:?} rsync={:?}\n{}", brk, out.result, out.fetched, out.metrics.rsync, out.log.join("\n"));
        if let Ok(t) = std::fs::read_to_string(world.dir.join("wrapper.sh")) { eprintln!("{}", t); }
    }
    RunResult { dyn_coq, payload: payload_keys(&out.payload), result: out.result.clone(),
                rejected_points: out.metrics.publication.rejected_points }
}

static BASELINES: Mutex<Option<HashMap<String, Arc<Mutex<Option<Arc<RunResult>>>>>>> = Mutex::new(None);

fn run_case(input: &Value) -> CaseOut {
    let inp: Input = serde_json::from_value(input.clone()).expect("input");
    let (base, bad, step) = twins(&inp);
    // static tables from the baseline description (both twins have the same structure; for `Deep` the faulty
    // description is the baseline plus a chain inside r, so the tables come from it)
    let tb = build(if matches!(inp.brk, Break::Deep { .. }) { &bad } else { &base }).unwrap_or_else(|e| panic!("build: {}", e)).truth;
    let mut modules: BTreeSet<String> = tb.cas.iter().map(|c| c.module.clone()).collect();
    for t in &tb.tals { for u in &t.uris { modules.insert(u.module.clone()); } }
    let ids = Ids {
        ca: tb.cas.iter().enumerate().map(|(i, c)| (c.id.clone(), i as u64 + 1)).collect(),
        module: modules.iter().enumerate().map(|(i, m)| (m.clone(), i as u64 + 1)).collect(),
    };
    // parents and positions
    let mut parent: HashMap<String, (Option<String>, usize, Vec<Rg>)> = HashMap::new();   // ca -> (parent, tal, resources)
    for (ti, t) in tb.tals.iter().enumerate() { for u in &t.uris { for c in u.certs.iter().flatten() {
        if let Some(s) = &c.subject { parent.entry(s.clone()).or_insert((None, ti, ranges_of(&c.effective))); }
    } } }
    let mut progress = true;
    while progress {
        progress = false;
        for ca in &tb.cas {
            let (tal, known) = match parent.get(&ca.id) { Some(p) => (p.1, true), None => (0, false) };
            if !known { continue }
            for v in &ca.versions { for e in &v.entries { if let ObjTruth::Ca(c) = &e.obj { if let Some(s) = &c.subject {
                if !parent.contains_key(s) { parent.insert(s.clone(), (Some(ca.id.clone()), tal, ranges_of(&c.effective))); progress = true; }
            } } } }
        }
    }
    let path_of = |id: &str| -> Vec<u64> {
        let mut p = vec![ids.ca[id]];
        let mut cur = id.to_string();
        while let Some((Some(up), _, _)) = parent.get(&cur) { p.push(ids.ca[up]); cur = up.clone(); if p.len() > 64 { break } }
        p
    };
    // tags
    let mut tags = Tags { of: HashMap::new(), info: Vec::new() };
    let all_cfg = RunCfg { limit_v4_len: None, limit_v6_len: None, enable_aspa: true, enable_bgpsec: true, ..inp.cfg.clone() };
    let mut dup = false;
    for truth in [&tb] {
        for ca in &truth.cas { for v in &ca.versions {
            // every object counts for the table, valid or not: use the entries directly
            let mut vv = v.clone();
            for e in &mut vv.entries { e.listed = true; }
            for (k, rg) in version_items_all(&vv, &all_cfg) {
                match tags.of.get(&k) {
                    Some(t) => { if tags.info[*t as usize - 1].1 != ca.id { dup = true; } }
                    None => { let t = tags.info.len() as u64 + 1; tags.of.insert(k, t); tags.info.push((t, ca.id.clone(), rg)); }
                }
            }
        } }
    }
    assert!(!dup, "an item is published by two CAs; the generator must keep items unique per CA");

    // baseline (cached per description/config/mode) and faulty run
    let key = serde_json::to_string(&json!([&base, &inp.cfg, &inp.mode, &inp.r])).unwrap();
    let slot = {
        let mut g = BASELINES.lock().unwrap();
        g.get_or_insert_with(HashMap::new).entry(key).or_insert_with(|| Arc::new(Mutex::new(None))).clone()
    };
    let b = {
        let mut g = slot.lock().unwrap();
        if g.is_none() { *g = Some(Arc::new(run_world(&base, &inp, step, None, &ids, &tags))); }
        g.as_ref().unwrap().clone()
    };
    let f = run_world(&bad, &inp, step, Some(&inp.brk), &ids, &tags);

    let tag_list = |keys: &[Key]| -> Vec<u64> {
        let mut v: Vec<u64> = keys.iter().map(|k| tags.of.get(k).cloned().unwrap_or(0)).collect();
        v.sort(); v.dedup(); v
    };
    let ob = if b.result == "ok" { tag_list(&b.payload) } else { vec![999_999] };
    let of = if f.result == "ok" { tag_list(&f.payload) } else { vec![999_998] };

    let c_repo = coq_list(tb.cas.iter(), |c| format!("({}, {})", ids.ca[&c.id], ids.module[&c.module]));
    let c_tals = coq_list(tb.tals.iter(), |t| coq_list(t.uris.iter(), |u| {
        let c = u.certs.iter().flatten().next();
        let (root, res) = match c {
            Some(c) => (c.subject.as_ref().and_then(|s| ids.ca.get(s)).cloned().unwrap_or(0), ranges_of(&c.effective)),
            None => (0, vec![]),
        };
        format!("{{| tu_repo := {}; tu_root := {}; tu_res := {} |}}", ids.module[&u.module], root, coq_list(res.iter(), rg_coq))
    }));
    let c_layout = coq_list(tb.cas.iter().filter(|c| parent.contains_key(&c.id)), |c| {
        let (_, tal, res) = &parent[&c.id];
        format!("({}, {}, {})", tal, coq_nlist(path_of(&c.id)), coq_list(res.iter(), rg_coq))
    });
    let c_tags = coq_list(tags.info.iter().filter(|(_, owner, _)| parent.contains_key(owner)), |(t, owner, rg)| {
        format!("({}, ({}, {}, {}))", t, parent[owner].1, coq_nlist(path_of(owner)), coq_opt(rg.as_ref().map(rg_coq)))
    });
    let coq = format!(
        "{{| c_r := {}; c_reject := {}; c_fuel := {}; c_repo := {}; c_tals := {}; c_base := {}; c_fault := {}; \
         c_layout := {}; c_tags := {}; c_obs_base := {}; c_obs_fault := {} |}}",
        ids.module.get(&inp.r).cloned().unwrap_or(0), coq_bool(inp.cfg.unsafe_vrps == "reject"), inp.cfg.max_ca_depth,
        c_repo, c_tals, b.dyn_coq, f.dyn_coq, c_layout, c_tags, coq_nlist(ob.iter()), coq_nlist(of.iter()));
    let nontrivial = ob != of && !of.is_empty();
    CaseOut {
        obs: json!({"base": {"result": b.result, "tags": ob, "rejected_points": b.rejected_points},
                    "fault": {"result": f.result, "tags": of, "rejected_points": f.rejected_points}}),
        coq, nontrivial,
    }
}

/// like `version_items` but for every object regardless of validity (the tag table)
fn version_items_all(v: &VersionTruth, cfg: &RunCfg) -> Vec<(Key, Option<Rg>)> {
    let mut out = Vec::new();
    for e in &v.entries {
        match &e.obj {
            ObjTruth::Roa { vrps, .. } => for r in vrps { out.push((Key::Origin(r.prefix.clone(), r.max_len, r.asn), Some(vrp_range(r)))); },
            ObjTruth::Router { keys, .. } => for k in keys { out.push((Key::RouterKey(k.key_id.clone(), k.asn, k.key_info.clone()), None)); },
            ObjTruth::Aspa { customer, providers, .. } => { let mut p = providers.clone(); p.sort(); out.push((Key::Aspa(*customer, p), None)); }
            _ => { }
        }
    }
    let _ = cfg;
    out
}

//------------ generators ---------------------------------------------------------------------

const R1: (&str, &str) = ("rpki.alpha.example", "repo");
const R2: (&str, &str) = ("rpki.alpha.example", "members");
const R3: (&str, &str) = ("rpki.gamma.example", "repo");
const R4: (&str, &str) = ("rpki.delta.example", "pub");

fn modname(r: (&str, &str)) -> String { format!("{}/{}", r.0, r.1) }

/// TAL alpha: certificate and root A in R1; A -> A1 (R2) -> A3 (R3); A -> A2 (R3) -> A4 (R1); A -> A5 (R4, `four`).
/// TAL beta: certificate in R3, root B in R2; B -> B1 (R1).  A's own ROAs cover its children's space
/// (so that rejecting a child makes A's VRPs unsafe); every item is published by exactly one CA.
fn world(four: bool, second_uri: bool) -> Scen {
    let mut s = Scen::new();
    s.add_ta("alpha", "A", 0, R1.0, R1.1, res(&["10.0.0.0/8", "192.168.0.0/16"], &["2001:db8::/32"], &[(64496, 64511)]));
    s.add_child("A", "A1", 1, R2.0, R2.1, res(&["10.1.0.0/16"], &["2001:db8:1::/48"], &[(64496, 64499)]));
    s.add_child("A", "A2", 2, R3.0, R3.1, res(&["10.2.0.0/16"], &[], &[(64500, 64503)]));
    s.add_child("A1", "A3", 3, R3.0, R3.1, res(&["10.1.3.0/24"], &[], &[(64496, 64497)]));
    s.add_child("A2", "A4", 5, R1.0, R1.1, res(&["10.2.4.0/24"], &[], &[(64500, 64501)]));
    s.add_roa("A", "a.roa", 64496, &[("10.0.0.0/16", Some(20)), ("2001:db8::/32", None)]);
    s.add_roa("A", "a-over-a1.roa", 64496, &[("10.1.0.0/16", Some(17))]);
    s.add_roa("A", "a-over-a2.roa", 64496, &[("10.2.0.0/15", None)]);
    s.add_aspa("A", "a.asa", 64510, &[64501, 64502]);
    s.add_roa("A1", "a1.roa", 64497, &[("10.1.0.0/16", Some(24)), ("2001:db8:1::/48", Some(64))]);
    s.add_router("A1", "a1r.cer", &[(64496, 64497)], 0);
    s.add_gbr("A1", "a1.gbr");
    s.add_roa("A2", "a2.roa", 64500, &[("10.2.0.0/16", None)]);
    s.add_aspa("A2", "a2.asa", 64500, &[64496]);
    s.add_roa("A3", "a3.roa", 64497, &[("10.1.3.0/24", Some(28))]);
    s.add_other("A3", "readme.txt", "x");
    s.add_roa("A4", "a4.roa", 64501, &[("10.2.4.0/24", None)]);
    s.add_router("A4", "a4r.cer", &[(64500, 64500)], 1);
    if four {
        s.add_child("A", "A5", 6, R4.0, R4.1, res(&["10.5.0.0/16"], &[], &[(64504, 64505)]));
        s.add_roa("A5", "a5.roa", 64504, &[("10.5.0.0/16", Some(18))]);
        s.add_roa("A", "a-over-a5.roa", 64496, &[("10.5.128.0/17", None)]);
    }
    // TAL beta: the TA certificate lives in R3, the root CA in R2
    s.add_point("B", 4, R2.0, R2.1);
    let cert = s.ca_cert_times();
    let mut uris = vec![TaUriSpec {
        uri: format!("rsync://{}/{}/ta/beta.cer", R3.0, R3.1),
        certs: vec![Some(TaCertSpec { ca: "B".into(), key: None, cert: cert.clone(), resources: res(&["172.16.0.0/12"], &[], &[(65000, 65010)]), faults: vec![] })],
    }];
    if second_uri {
        uris.push(TaUriSpec {
            uri: format!("rsync://{}/{}/ta/beta-second.cer", R2.0, R2.1),
            certs: vec![Some(TaCertSpec { ca: "B".into(), key: None, cert, resources: res(&["172.16.0.0/12"], &[], &[(65000, 65010)]), faults: vec![] })],
        });
    }
    s.spec.tals.push(TalSpec { name: "beta".into(), key: 4, uris });
    s.add_child("B", "B1", 7, R1.0, R1.1, res(&["172.16.0.0/16"], &[], &[(65000, 65001)]));
    s.add_roa("B", "b.roa", 65000, &[("172.16.0.0/12", Some(16))]);
    s.add_roa("B1", "b1.roa", 65001, &[("172.16.5.0/24", None)]);
    s.add_aspa("B1", "b1.asa", 65001, &[65000, 65002]);
    s
}

fn case(class: String, spec: &RepoSpec, r: &str, cfg: &RunCfg, mode: &str, brk: Break) -> (String, Value) {
    (class, serde_json::to_value(Input { spec: spec.clone(), r: r.into(), cfg: cfg.clone(), mode: mode.into(), brk }).unwrap())
}

fn applicable(kind: &ObjKind, f: Fault) -> bool {
    match kind {
        ObjKind::Ca { .. } | ObjKind::Router { .. } => Fault::FOR_CERT.contains(&f),
        ObjKind::Roa { .. } | ObjKind::Aspa { .. } | ObjKind::Gbr { .. } => Fault::FOR_SIGNED.contains(&f),
        ObjKind::Other { .. } => Fault::FOR_OTHER.contains(&f),
    }
}

fn gen(rng: &mut Rng, tier: &str) -> Vec<(String, Value)> {
    let thorough = tier == "thorough";
    let mut out = Vec::new();
    let accept = RunCfg::default();
    let reject = RunCfg { unsafe_vrps: "reject".into(), ..RunCfg::default() };
    let w3 = world(false, false).spec;
    let w4 = world(true, true).spec;
    let repos3 = [modname(R1), modname(R2), modname(R3)];
    let repos4 = [modname(R1), modname(R2), modname(R3), modname(R4)];

    // 1. every whole-repository break x every repository x policy x mode
    // (breaks that need a real rsync process are generated in the stream `cmd`, which runs with RPKIGEN_RSYNC=self)
    let cmd = cmd_stream();
    let whole: Vec<(&str, Break)> = if cmd { vec![
        ("exit12", Break::Exit { code: 12 }), ("exit255", Break::Exit { code: 255 }), ("killed", Break::Killed),
        ("partial", Break::Partial), ("unreachable", Break::Unreachable),
    ] } else { vec![
        ("unreachable", Break::Unreachable), ("empty", Break::Empty),
        ("all-garbage", Break::All { fault: Fault::Garbage }), ("all-missing", Break::All { fault: Fault::Missing }),
    ] };
    for (wname, spec, repos) in [("w3", &w3, &repos3[..]), ("w4", &w4, &repos4[..])] {
        if wname == "w4" && !thorough { continue }
        for r in repos {
            for (bn, b) in &whole {
                for (pn, cfg) in [("accept", &accept), ("reject", &reject)] {
                    for mode in ["fresh", "history"] {
                        if !thorough && pn == "accept" && mode == "history" && !matches!(b, Break::Unreachable | Break::Partial) { continue }
                        if !thorough && cmd && matches!(b, Break::Unreachable | Break::Exit { code: 255 }) && pn == "accept" { continue }
                        out.push(case(format!("{}-{}-{}-{}", bn, pn, mode, wname), spec, r, cfg, mode, b.clone()));
                    }
                }
            }
        }
    }
    if cmd {
        // rsync hanging until the timeout kills it (5 s each)
        for r in &repos3 { out.push(case("timeout-reject-history".into(), &w3, r, &reject, "history", Break::Timeout)); }
        if thorough { for r in &repos3 { out.push(case("timeout-accept-fresh".into(), &w3, r, &accept, "fresh", Break::Timeout)); } }
        let _ = rng.next();
        return out
    }
    // structure inside r that the engine must cut: a chain deeper than max-ca-depth, a key re-used down the chain
    for r in &repos3 {
        for (pn, cfg) in [("accept", &accept), ("reject", &reject)] {
            for mode in ["fresh", "history"] {
                // (a key re-used down the chain is C07's subject: this harness identifies a CA by its id, not by its key)
                for (depth, cycle, limit) in [(4usize, false, 3usize), (5, false, 4), (2, false, 1)] {
                    if !thorough && pn == "accept" && mode == "history" { continue }
                    let c = RunCfg { max_ca_depth: limit, ..cfg.clone() };
                    out.push(case(format!("deep{}{}-limit{}-{}-{}", depth, if cycle { "cycle" } else { "" }, limit, pn, mode), &w3, r, &c, mode, Break::Deep { depth, cycle }));
                }
            }
        }
    }
    // 4 validation threads
    let par = RunCfg { validation_threads: 4, ..reject.clone() };
    for r in &repos3 { out.push(case("unreachable-reject-fresh-threads4".into(), &w3, r, &par, "fresh", Break::Unreachable)); }

    // 2. single faults: every manifest fault at every CA (fresh, reject), a sample of the rest
    let mut singles: Vec<(String, String, FaultAt)> = Vec::new();   // (class, repo, fault)
    for ca in &w3.cas {
        let r = module_of(&ca.repo);
        for f in Fault::FOR_MANIFEST { singles.push(("mft".into(), r.clone(), FaultAt { at: ca.id.clone(), target: "mft".into(), fault: f })); }
        for f in Fault::FOR_CRL { singles.push(("crl".into(), r.clone(), FaultAt { at: ca.id.clone(), target: "crl".into(), fault: f })); }
        for o in &ca.versions[0].objects {
            for f in Fault::ALL { if applicable(&o.kind, f) {
                let kind = match o.kind { ObjKind::Ca { .. } => "cacert", ObjKind::Router { .. } => "router", ObjKind::Roa { .. } => "roa",
                                          ObjKind::Aspa { .. } => "aspa", ObjKind::Gbr { .. } => "gbr", ObjKind::Other { .. } => "other" };
                singles.push((kind.into(), r.clone(), FaultAt { at: ca.id.clone(), target: format!("obj:{}", o.name), fault: f }));
            } }
        }
    }
    for t in &w3.tals { for (ui, u) in t.uris.iter().enumerate() {
        for f in Fault::FOR_TA { singles.push(("ta".into(), module_of(&u.uri), FaultAt { at: t.name.clone(), target: format!("ta:{}", ui), fault: f })); }
    } }
    for (kind, r, f) in &singles {
        let take = thorough || kind == "mft" || kind == "ta" || rng.chance(1, 6);
        if !take { continue }
        let mode = if rng.chance(1, 3) { "history" } else { "fresh" };
        let cfg = if kind == "mft" || rng.chance(2, 3) { &reject } else { &accept };
        out.push(case(format!("single-{}-{}-{}", kind, cfg.unsafe_vrps, mode), &w3, r, cfg, mode, Break::Faults { faults: vec![f.clone()] }));
        if thorough {
            let other = if mode == "fresh" { "history" } else { "fresh" };
            out.push(case(format!("single-{}-{}-{}", kind, cfg.unsafe_vrps, other), &w3, r, cfg, other, Break::Faults { faults: vec![f.clone()] }));
        }
    }
    // the second TAL URI (in another repository) rescues the TAL
    for f in Fault::FOR_TA {
        out.push(case("ta-second-uri".into(), &w4, &modname(R3), &reject, "fresh",
                      Break::Faults { faults: vec![FaultAt { at: "beta".into(), target: "ta:0".into(), fault: f }] }));
    }

    // 3. random: several faults inside r, pre-existing faults outside r (present in both twins)
    let nrand = if thorough { 300 } else { 40 };
    for _ in 0..nrand {
        let four = rng.chance(1, 3);
        let mut spec = if four { w4.clone() } else { w3.clone() };
        let repos: &[String] = if four { &repos4 } else { &repos3 };
        let r = rng.pick(repos).clone();
        // pre-existing trouble outside r
        let mut class = "random".to_string();
        if rng.chance(1, 2) {
            let outside: Vec<usize> = (0..spec.cas.len()).filter(|i| module_of(&spec.cas[*i].repo) != r && spec.cas[*i].id != "A" && spec.cas[*i].id != "B").collect();
            if !outside.is_empty() {
                let ci = *rng.pick(&outside);
                let f = *rng.pick(&[Fault::BadSignature, Fault::Expired, Fault::Garbage, Fault::Revoked]);
                spec.cas[ci].versions[0].mft.faults.push(f);
                class.push_str("-prefault");
            }
        }
        let inside: Vec<&(String, String, FaultAt)> = singles.iter().filter(|(_, rr, _)| *rr == r).collect();
        let n = if inside.is_empty() { 0 } else { rng.range(1, 3) as usize };
        let mut faults: Vec<FaultAt> = Vec::new();
        for _ in 0..n {
            let f = rng.pick(&inside).2.clone();
            if faults.iter().any(|g| g.at == f.at && g.target == f.target) { continue }
            // combinations the builder refuses are avoided: one fault per item
            faults.push(f);
        }
        let cfg = RunCfg {
            unsafe_vrps: if rng.chance(2, 3) { "reject".into() } else { rng.pick(&["accept", "warn"]).to_string() },
            validation_threads: if rng.chance(1, 4) { 4 } else { 1 },
            ..RunCfg::default()
        };
        let mode = if rng.chance(1, 2) { "history" } else { "fresh" };
        let brk = if faults.is_empty() { Break::All { fault: Fault::Garbage } } else { Break::Faults { faults } };
        out.push(case(format!("{}-{}", class, mode), &spec, &r, &cfg, mode, brk));
    }
    out
}

/// rsync-timeout of the runs of class `timeout-*`: it applies to every module, so it must be long enough for the
/// healthy modules' fetches even on a saturated machine.
const TIMEOUT_SECS: u64 = 5;

fn cmd_stream() -> bool { std::env::var("C41_STREAM").map(|s| s == "cmd").unwrap_or(false) }

fn main() {
    act_as_rsync_if_child();
    // the stream `cmd` needs fetches to go through a real process (the wrapper script around this binary)
    if cmd_stream() { std::env::set_var("RPKIGEN_RSYNC", "self"); }
    let threads = std::env::var("C41_THREADS").ok().and_then(|s| s.parse().ok()).unwrap_or(if cmd_stream() { 3 } else { 8 });
    drive_par(gen, run_case, threads);
}
