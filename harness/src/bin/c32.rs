//! C32: how vrps / validate / update / server react to validation run outcomes (coq/C32).
//! Each case runs the real command in a child process (this binary in `child` mode) through the same
//! path as main.rs, with the outcome of every run forced by the hook at the top of
//! ValidationReport::process; the hook also counts the runs.
use std::io::Read;
use std::process::{Command, Stdio};
use std::time::{Duration, Instant};
use rv_harness::util::*;
use serde_json::{json, Value};

fn child(cmd: &str, outcomes: &str, dir: &str) -> ! {
    use routinator::{Config, ExitError, Operation};
    let forced: Vec<u64> = outcomes.split(',').map(|x| x.parse().unwrap()).collect();
    routinator::verif::set_forced("validation.process", forced);
    let cache = format!("{}/cache", dir);
    let tals = format!("{}/tals", dir);
    std::fs::create_dir_all(&cache).unwrap();
    std::fs::create_dir_all(&tals).unwrap();
    let out = format!("{}/out.txt", dir);
    let mut args: Vec<String> = vec!["routinator".into(), "--repository-dir".into(), cache, "--no-rir-tals".into(),
        "--extra-tals-dir".into(), tals, "--config".into(), format!("{}/none.conf", dir)];
    std::fs::write(format!("{}/none.conf", dir), format!("repository-dir = \"{}/cache\"\n", dir)).unwrap();
    // "<cmd>!" = Engine::sanitize fails: a zero-length RRDP archive in the cache (its magic cannot be read, which
    // RRDP sanitize reports as fatal); commands run with the collector (no --noupdate; there are no TALs, so nothing
    // is fetched) for sanitize to look at it
    let (cmd, plant) = match cmd.strip_suffix('!') { Some(c) => (c, true), None => (cmd, false) };
    if plant {
        std::fs::create_dir_all(format!("{}/cache/rrdp/host.example", dir)).unwrap();
        std::fs::write(format!("{}/cache/rrdp/host.example/0123456789abcdef.bin", dir), b"").unwrap();
    }
    match cmd {
        "vrps_upd" => args.extend(["--disable-rsync".into(), "vrps".into(), "-o".into(), out]),
        "vrps" => args.extend(["vrps".into(), "--noupdate".into(), "-o".into(), out]),
        "validate" => args.extend(["validate".into(), "--noupdate".into(), "-a".into(), "64500".into(), "-p".into(), "10.0.0.0/8".into(), "-o".into(), out]),
        "update" => args.extend(["update".into()]),
        "server" => {
            args.extend(["--disable-rsync".into(), "server".into(), "--refresh".into(), "1".into()]);
            if let Ok(port) = std::env::var("C32_RTR_PORT") {
                args.extend(["--rtr".into(), format!("127.0.0.1:{}", port)]);
                let port: u16 = port.parse().unwrap();
                // the validation thread is held after the first data set has been installed and before its
                // notification goes out, until the client is synchronised
                routinator::verif::arm("server.updated");
                std::thread::spawn(move || rtr_observer(port));
            }
        }
        _ => panic!("cmd"),
    }
    let res: Result<(), ExitError> = (|| {
        Operation::prepare()?;
        let cur_dir = std::env::current_dir().unwrap();
        let matches = Operation::config_args(Config::config_args(clap::Command::new("Routinator"))).try_get_matches_from(&args)
            .map_err(|e| { eprintln!("{}", e); ExitError::Generic })?;
        let mut config = Config::from_arg_matches(&matches, &cur_dir)?;
        let op = Operation::from_arg_matches(&matches, &cur_dir, &mut config)?;
        op.run(config)
    })();
    let code = match res { Ok(()) => 0, Err(ExitError::Generic) => 1, Err(ExitError::IncompleteUpdate) => 2, Err(ExitError::Invalid) => 3 };
    if std::env::var("C32_RTR_PORT").is_ok() && SYNCED.load(std::sync::atomic::Ordering::SeqCst) > 0 {
        // let the client read what is on its way: the first run's notification, then a grace period for further ones
        let t0 = Instant::now();
        while NOTIFS.load(std::sync::atomic::Ordering::SeqCst) == 0 && t0.elapsed() < Duration::from_secs(5) { std::thread::sleep(Duration::from_millis(10)); }
        std::thread::sleep(Duration::from_millis(300));
    }
    println!("RESULT runs={} exit={} synced={} notifs={}", routinator::verif::counter("validation.process.calls"), code,
             SYNCED.load(std::sync::atomic::Ordering::SeqCst), NOTIFS.load(std::sync::atomic::Ordering::SeqCst));
    std::process::exit(0);
}

//------------ an RTR client inside the server child: counts Serial Notify PDUs --------------------------------
//
// Connects to the server's RTR port, sends a Reset Query until the server has data (before that it answers with an
// error report), reads up to End of Data and from then on counts every Serial Notify.  The validation thread waits at
// the point `server.updated` of the first run (data installed, notification not yet sent) until the client is
// synchronised.  There are no TALs, so the data set never changes again: exactly ONE notification is due, the first run's.

static SYNCED: std::sync::atomic::AtomicU64 = std::sync::atomic::AtomicU64::new(0);   // run counter when End of Data arrived (+1)
static NOTIFS: std::sync::atomic::AtomicU64 = std::sync::atomic::AtomicU64::new(0);

fn rtr_observer(port: u16) {
    use std::io::{Read, Write};
    use std::sync::atomic::Ordering::SeqCst;
    loop {
        std::thread::sleep(Duration::from_millis(20));
        let mut sock = match std::net::TcpStream::connect(("127.0.0.1", port)) { Ok(s) => s, Err(_) => continue };
        let _ = sock.set_read_timeout(Some(Duration::from_secs(30)));
        if sock.write_all(&[1, 2, 0, 0, 0, 0, 0, 8]).is_err() { continue }       // Reset Query, protocol version 1
        let mut synced = false;
        loop {
            let mut h = [0u8; 8];
            if sock.read_exact(&mut h).is_err() { break }
            let len = u32::from_be_bytes([h[4], h[5], h[6], h[7]]) as usize;
            let mut body = vec![0u8; len.saturating_sub(8).min(1 << 20)];
            if sock.read_exact(&mut body).is_err() { break }
            match h[1] {
                7 => {                                                                                                      // End of Data
                    synced = true;
                    SYNCED.store(routinator::verif::counter("validation.process.calls") + 1, SeqCst);
                    routinator::verif::release("server.updated");
                    routinator::verif::disarm("server.updated");
                }
                0 => { if synced { NOTIFS.fetch_add(1, SeqCst); } }                                                          // Serial Notify
                10 => break,                                                                                                // Error Report (no data yet): try again
                _ => { }
            }
        }
        if synced { return }
    }
}

fn gen_notify(_rng: &mut Rng, tier: &str) -> Vec<(String, Value)> {
    // server histories with a success first (the client synchronises during the refresh wait after it), then failures
    let mut v = Vec::new();
    let seqs: Vec<Vec<u64>> = if tier == "thorough" {
        vec![vec![0, 1, 2], vec![0, 1, 1], vec![0, 2], vec![0, 0, 1, 2], vec![0, 1, 0, 1, 2], vec![0, 0, 2], vec![0, 1, 0, 2]]
    } else { vec![vec![0, 1, 2], vec![0, 2], vec![0, 1, 0, 2]] };
    for s in seqs { v.push(("server.notify".to_string(), json!({"cmd": "server", "outcomes": s, "observe": true}))); }
    v
}

fn gen(_rng: &mut Rng, tier: &str) -> Vec<(String, Value)> {
    let mut cases = Vec::new();
    let maxlen = if tier == "thorough" { 5 } else { 4 };
    // all outcome sequences over {0 ok, 1 retry, 2 fatal} up to maxlen; the last outcome repeats for ever.
    // one-shot commands: every sequence; server: only sequences whose last (repeating) outcome is a failure,
    // since the server keeps running while runs succeed.
    for cmd in ["vrps", "validate", "update", "server"] {
        for len in 1..=maxlen {
            if cmd != "server" && cmd != "vrps" && len > 2 { continue }
            for m in 0..3u32.pow(len as u32) {
                let seq: Vec<u64> = (0..len).map(|i| ((m / 3u32.pow(i as u32)) % 3) as u64).collect();
                if cmd == "server" && *seq.last().unwrap() == 0 { continue }
                if cmd == "server" && seq.iter().filter(|x| **x == 0).count() > 2 { continue }  // each success costs a 1 s refresh wait
                cases.push((format!("{}.len{}", cmd, len), json!({"cmd": cmd, "outcomes": seq})));
            }
        }
    }
    // Engine::sanitize fails (the retry is only made after a successful sanitize): vrps with the collector, server
    for cmd in ["vrps_upd", "vrps_upd!", "server!"] {
        for seq in [vec![1u64, 0], vec![1, 1, 0], vec![1, 2], vec![0], vec![2], vec![1, 1, 1, 1, 1, 1, 2], vec![0, 1, 0, 1, 2], vec![0, 1, 2]] {
            if cmd.starts_with("server") && *seq.last().unwrap() == 0 { continue }
            // with the damaged cache only histories that never get past a failing run are in the model's scope (a
            // successful run is followed by phases - cleanup - that the zero-length archive makes fail as well)
            if cmd.ends_with('!') && seq[0] == 0 { continue }
            cases.push((format!("{}.sanitize", cmd.replace('!', "_fails")), json!({"cmd": cmd, "outcomes": seq})));
        }
    }
    // long retry streaks (8 retries, then fatal for ever): a command that keeps retrying shows up as 9 runs
    for cmd in ["vrps", "validate", "update", "server"] {
        cases.push((format!("{}.retry_streak", cmd), json!({"cmd": cmd, "outcomes": [1, 1, 1, 1, 1, 1, 1, 1, 2]})));
    }
    cases
}

fn run(input: &Value) -> CaseOut {
    // the notification stream needs a free TCP port and a client that gets through: when the client never
    // synchronised (port taken by another process between choosing and binding it, server not up in time)
    // nothing was observed, and the case is run again (up to four times) instead of being reported
    if input["observe"].as_bool().unwrap_or(false) {
        let mut last = run_once(input);
        for _ in 0..3 {
            if last.obs["synced_at_run"].as_u64().unwrap_or(0) > 0 && last.obs["ended"].as_bool().unwrap_or(false) { break }
            last = run_once(input);
        }
        return last
    }
    run_once(input)
}

fn run_once(input: &Value) -> CaseOut {
    let cmd = input["cmd"].as_str().unwrap();
    let outcomes: Vec<u64> = input["outcomes"].as_array().unwrap().iter().map(|x| x.as_u64().unwrap()).collect();
    let dir = tempfile::tempdir().unwrap();
    let observe = input["observe"].as_bool().unwrap_or(false);
    let mut command = Command::new(std::env::current_exe().unwrap());
    command.args(["child", cmd, &outcomes.iter().map(|x| x.to_string()).collect::<Vec<_>>().join(","), dir.path().to_str().unwrap()])
        .stdout(Stdio::piped()).stderr(Stdio::null());
    if observe {
        let port = { let l = std::net::TcpListener::bind("127.0.0.1:0").unwrap(); l.local_addr().unwrap().port() };
        command.env("C32_RTR_PORT", port.to_string());
    }
    let mut ch = command.spawn().expect("spawn child");
    let deadline = Instant::now() + Duration::from_secs(120);
    let ended = loop {
        match ch.try_wait().unwrap() {
            Some(_) => break true,
            None => if Instant::now() > deadline { let _ = ch.kill(); let _ = ch.wait(); break false } else { std::thread::sleep(Duration::from_millis(10)) }
        }
    };
    let mut out = String::new();
    if let Some(mut so) = ch.stdout.take() { let _ = so.read_to_string(&mut out); }
    let line = out.lines().find(|l| l.starts_with("RESULT ")).unwrap_or("RESULT runs=999999 exit=99").to_string();
    let runs: u64 = line.split("runs=").nth(1).and_then(|s| s.split(' ').next()).and_then(|s| s.parse().ok()).unwrap_or(999_999);
    let exit: u64 = line.split("exit=").nth(1).and_then(|s| s.split(' ').next()).and_then(|s| s.trim().parse().ok()).unwrap_or(99);
    if observe {
        let synced: u64 = line.split("synced=").nth(1).and_then(|s| s.split(' ').next()).and_then(|s| s.parse().ok()).unwrap_or(0);
        let notifs: u64 = line.split("notifs=").nth(1).and_then(|s| s.trim().parse().ok()).unwrap_or(999);
        let coq = format!("{{| n_outcomes := [{}]; n_ended := {}; n_runs := {}; n_synced := {}; n_notifs := {} |}}",
            outcomes.iter().map(|o| match o { 0 => "Ok", 1 => "Retry", _ => "Fatal" }).collect::<Vec<_>>().join("; "), coq_bool(ended), runs, synced, notifs);
        return CaseOut { obs: json!({"ended": ended, "runs": runs, "synced_at_run": synced, "notifications_after_sync": notifs}), coq, nontrivial: synced > 0 }
    }
    let code = match cmd.trim_end_matches('!') { "vrps" | "vrps_upd" => 0, "validate" => 1, "update" => 2, _ => 3 };
    let coq = format!("{{| c_cmd := {}; c_outcomes := [{}]; c_sanitize_ok := {}; i_ended := {}; i_runs := {}; i_exit_ok := {} |}}",
        code, outcomes.iter().map(|o| match o { 0 => "Ok", 1 => "Retry", _ => "Fatal" }).collect::<Vec<_>>().join("; "),
        coq_bool(!cmd.ends_with('!')), coq_bool(ended), runs, coq_bool(exit == 0));
    CaseOut { obs: json!({"ended": ended, "runs": runs, "exit": exit}), coq, nontrivial: outcomes.iter().any(|o| *o != 0) }
}

fn main() {
    let a: Vec<String> = std::env::args().collect();
    if a.get(1).map(|s| s.as_str()) == Some("child") { child(&a[2], &a[3], &a[4]); }
    if std::env::var("C32_STREAM").as_deref() == Ok("notify") { drive_par(gen_notify, run, 4); return }
    drive_par(gen, run, 12)
}
