//! C20: route origin validation (src/validity.rs, rpki Prefix::covers) vs the Coq model (coq/C20).
//!
//! Two streams, selected by the environment variable C20_STREAM: "validity" (default) and "prefix"
//! (= the covers cases followed by the parse cases):
//!   validity (default)  RouteValidity::new + accessors, RouteValidity::into_json,
//!                       RequestList::{from_plain_reader,from_json_reader,single}::validity + write_json/iter_state,
//!                       GET /api/v1/validity/AS/prefix and GET /validity?asn=&prefix= through the real request
//!                       dispatcher (srvenv::Env: data set installed by a real validation cycle from SLURM assertions)
//!   covers              rpki::resources::Prefix::covers
//!   parse               Prefix::from_str / from_str_relaxed (the well-formedness the model assumes; malformed input)
use std::net::{IpAddr, Ipv4Addr, Ipv6Addr};
use std::str::FromStr;
use routinator::payload::{PayloadInfo, PayloadSnapshot};
use routinator::validity::{RequestList, RouteState, RouteValidity};
use rpki::resources::addr::Prefix;
use rpki::resources::asn::Asn;
use rpki::rtr::payload::RouteOrigin;
use rv_harness::paygen::snapshot_of;
use rv_harness::srvenv::Env;
use rv_harness::util::*;
use serde_json::{json, Value};

//------------ prefixes ---------------------------------------------------------

/// (is_v4, bits left-aligned in 128, len) — the fields of the model's `prefix`.
fn fields(p: Prefix) -> (bool, u128, u8) {
    match p.addr() {
        IpAddr::V4(a) => (true, (u32::from(a) as u128) << 96, p.len()),
        IpAddr::V6(a) => (false, u128::from(a), p.len()),
    }
}
fn fam_max(v4: bool) -> u8 { if v4 { 32 } else { 128 } }
fn top_mask(len: u8) -> u128 { if len == 0 { 0 } else { u128::MAX << (128 - len as u32) } }
/// Prefix text from left-aligned bits (host bits cleared here, so the text is a strict prefix).
fn pfx_str(v4: bool, bits: u128, len: u8) -> String {
    let b = bits & top_mask(len);
    if v4 { format!("{}/{}", Ipv4Addr::from((b >> 96) as u32), len) } else { format!("{}/{}", Ipv6Addr::from(b), len) }
}
/// Left-aligned bits as a Coq term: IPv4 as `(S4 a)` (a << 96), IPv6 as a hexadecimal literal (cheaper to
/// elaborate than 39 decimal digits).
fn coq_bits(v4: bool, b: u128) -> String { if v4 { format!("(S4 {})", b >> 96) } else { format!("{:#x}", b) } }
fn coq_p(p: Prefix) -> String { let (v4, b, l) = fields(p); format!("(P {} {} {})", coq_bool(v4), coq_bits(v4, b), l) }
fn coq_optp(p: Option<Prefix>) -> String { coq_opt(p.map(coq_p)) }

fn rand_bits(rng: &mut Rng, v4: bool) -> u128 {
    let b = ((rng.next() as u128) << 64) | rng.next() as u128;
    if v4 { b & top_mask(32) } else { b }
}

//------------ stream: covers ----------------------------------------------------

fn gen_covers(rng: &mut Rng, tier: &str) -> Vec<(String, Value)> {
    let mut cases = Vec::new();
    let mut push = |class: &str, a: String, b: String| cases.push((class.to_string(), json!({"a": a, "b": b})));
    // (a) exhaustive small scope: all prefixes of length <= 3 of both families, all ordered pairs
    let mut small = Vec::new();
    for v4 in [true, false] {
        for len in 0..=3u8 {
            for v in 0..(1u128 << len) { small.push(pfx_str(v4, if len == 0 { 0 } else { v << (128 - len as u32) }, len)); }
        }
    }
    for a in &small { for b in &small { push("exhaustive.len3", a.clone(), b.clone()); } }
    // (b) boundary lengths from the case split of covers(): 0, max-1, max (host prefixes), equal, +-1, one flipped bit
    for v4 in [true, false] {
        let m = fam_max(v4);
        let lens: Vec<u8> = if v4 { vec![0, 1, 8, 31, 32] } else { vec![0, 1, 32, 33, 64, 96, 97, 127, 128] };
        for k in 0..(if tier == "thorough" { 24 } else { 6 }) {
            let base = if k == 0 { top_mask(m) } else if k == 1 { 0 } else { rand_bits(rng, v4) };
            for &la in &lens {
                for &lb in &lens {
                    push("boundary.lengths", pfx_str(v4, base, la), pfx_str(v4, base, lb));
                    // differ in the last bit of a's network part / in the first host bit of a
                    if la > 0 { push("boundary.flip_last_net_bit", pfx_str(v4, base, la), pfx_str(v4, base ^ (1u128 << (128 - la as u32)), lb)); }
                    if la < m && lb > la { push("boundary.flip_first_host_bit", pfx_str(v4, base, la), pfx_str(v4, base ^ (1u128 << (127 - la as u32)), lb)); }
                }
            }
            // same left-aligned bits, other family
            for &l in &[0u8, 1, 8, 24, 32] {
                push("boundary.other_family", pfx_str(true, base & top_mask(32), l), pfx_str(false, base & top_mask(32), l));
                push("boundary.other_family", pfx_str(false, base & top_mask(32), l), pfx_str(true, base & top_mask(32), l.min(32)));
            }
        }
    }
    // (c) structured random: b random, a = b truncated (covers), or with one bit flipped, or unrelated
    let n = if tier == "thorough" { 20000 } else { 1200 };
    for _ in 0..n {
        let v4 = rng.chance(1, 2);
        let m = fam_max(v4);
        let lb = rng.range(0, m as u64) as u8;
        let bb = rand_bits(rng, v4);
        match rng.below(5) {
            0 | 1 => { let la = rng.range(0, lb as u64) as u8; push("random.truncation", pfx_str(v4, bb, la), pfx_str(v4, bb, lb)); }
            2 => {
                let la = rng.range(0, m as u64) as u8;
                let bit = rng.range(0, m as u64 - 1) as u32;
                push("random.flip", pfx_str(v4, bb ^ (1u128 << (127 - bit)), la), pfx_str(v4, bb, lb));
            }
            3 => { let la = rng.range(0, m as u64) as u8; push("random.any_len", pfx_str(v4, bb, la), pfx_str(v4, bb, lb)); }
            _ => { let la = rng.range(0, m as u64) as u8; push("random.unrelated", pfx_str(v4, rand_bits(rng, v4), la), pfx_str(v4, bb, lb)); }
        }
    }
    cases
}

fn run_covers(input: &Value) -> CaseOut {
    // relaxed parsing: a replay may carry host bits; the model's well-formedness is checked in Coq
    let a = Prefix::from_str_relaxed(input["a"].as_str().unwrap()).expect("prefix a");
    let b = Prefix::from_str_relaxed(input["b"].as_str().unwrap()).expect("prefix b");
    let res = std::panic::catch_unwind(|| a.covers(b));
    let (obs, coq_res) = match res {
        Ok(r) => (json!({"covers": r}), coq_bool(r).to_string()),
        // a panic is reported as the negation of the plain notion so that the oracle flags it
        Err(_) => {
            let (av, ab, al) = fields(a); let (bv, bb, bl) = fields(b);
            let plain = av == bv && al <= bl && (ab & top_mask(al)) == (bb & top_mask(al));
            (json!({"covers": "panic"}), coq_bool(!plain).to_string())
        }
    };
    CaseOut {
        obs, nontrivial: coq_res == "true",
        coq: format!("CCov {{| cc_a := {}; cc_b := {}; cc_impl := {} |}}", coq_p(a), coq_p(b), coq_res),
    }
}

//------------ stream: parse ------------------------------------------------------

fn gen_parse(rng: &mut Rng, tier: &str) -> Vec<(String, Value)> {
    let mut cases = Vec::new();
    let mut push = |class: &str, v4: bool, addr: u128, len: u64| {
        cases.push((class.to_string(), json!({"v4": v4, "addr": addr.to_string(), "len": len})))
    };
    // (a) exhaustive small scope: addresses with bits only in the top 2 (quick) / 3 and the lowest position, every length 0..max+2
    let topbits = if tier == "thorough" { 3 } else { 2 };
    for v4 in [true, false] {
        let w = if v4 { 32 } else { 128 };
        for top in 0..(1u128 << topbits) {
            for low in 0..2u128 {
                let addr = (top << (w - topbits)) | low;
                for len in 0..=(w as u64 + 2) { push("exhaustive.top_bits_low1", v4, addr, len); }
            }
        }
    }
    // (b) boundary: all-ones / zero address at the boundary lengths; over-long lengths up to u8::MAX and beyond
    for v4 in [true, false] {
        let w = if v4 { 32u32 } else { 128 };
        let ones = if v4 { u32::MAX as u128 } else { u128::MAX };
        for len in [0u64, 1, 31, 32, 33, 64, 127, 128, 129, 200, 255, 256, 1000] {
            push("boundary.all_ones", v4, ones, len);
            push("boundary.zero", v4, 0, len);
            if len >= 1 && len <= w as u64 { push("boundary.single_bit_at_len", v4, 1u128 << (w as u64 - len), len); }
            if len < w as u64 { push("boundary.single_bit_after_len", v4, 1u128 << (w as u64 - len - 1), len); }
        }
    }
    // (c) structured random: mostly valid (host bits cleared), some with host bits, some over-long
    let n = if tier == "thorough" { 20000 } else { 700 };
    for _ in 0..n {
        let v4 = rng.chance(1, 2);
        let w = if v4 { 32u32 } else { 128 };
        let raw = if v4 { rng.next() as u32 as u128 } else { ((rng.next() as u128) << 64) | rng.next() as u128 };
        let len = rng.range(0, w as u64);
        let keep = if len == 0 { 0 } else if v4 { (u32::MAX as u128) & ((u32::MAX as u128) << (32 - len)) } else { u128::MAX << (128 - len) };
        match rng.below(10) {
            0..=6 => push("random.valid", v4, raw & keep, len),
            7 | 8 => push("random.host_bits", v4, raw, len),
            _ => push("malformed.len_too_large", v4, raw & keep, rng.range(w as u64 + 1, 300)),
        }
    }
    cases
}

fn run_parse(input: &Value) -> CaseOut {
    let v4 = input["v4"].as_bool().unwrap();
    let addr: u128 = input["addr"].as_str().unwrap().parse().unwrap();
    let len = input["len"].as_u64().unwrap();
    let text = if v4 { format!("{}/{}", Ipv4Addr::from(addr as u32), len) } else { format!("{}/{}", Ipv6Addr::from(addr), len) };
    let strict = Prefix::from_str(&text).ok();
    let relaxed = Prefix::from_str_relaxed(&text).ok();
    // serde path used by RequestList::from_json_reader must agree with from_str
    let serde_p: Option<Prefix> = serde_json::from_value(json!(text)).ok();
    let strict_obs = if serde_p == strict { strict } else { Prefix::from_str("255.255.255.255/32").ok() };
    let show = |p: Option<Prefix>| p.map(|p| p.to_string());
    CaseOut {
        obs: json!({"text": text, "strict": show(strict), "relaxed": show(relaxed), "serde": show(serde_p)}),
        nontrivial: relaxed.is_some(),
        coq: format!("CPar {{| pc_v4 := {}; pc_addr := {}; pc_len := {}; pc_strict := {}; pc_relaxed := {} |}}",
            coq_bool(v4), if v4 { addr.to_string() } else { format!("{:#x}", addr) }, len, coq_optp(strict_obs), coq_optp(relaxed)),
    }
}

//------------ stream: validity ----------------------------------------------------

const DESCRIPTIONS: [&str; 4] = [
    "At least one VRP Matches the Route Prefix",
    "At least one VRP Covers the Route Prefix, but no VRP ASN matches the route origin ASN",
    "At least one VRP Covers the Route Prefix, but the Route Prefix length is greater than the maximum length allowed by VRP(s) matching this route origin ASN",
    "No VRP Covers the Route Prefix",
];

/// One VRP relative to a route (v4, bits, len): what kind of relation it has.
fn related_vrp(rng: &mut Rng, v4: bool, rbits: u128, rlen: u8, rasn: u64, kind: u64) -> Value {
    let m = fam_max(v4);
    let other_asn = |rng: &mut Rng| { let a = rng.range(64496, 64511); if a == rasn { a + 100 } else { a } };
    let pick_ml_fam = |rng: &mut Rng, l: u8, want_ok: Option<bool>, m: u8| -> Value {
        // max length options around the route's length, restricted to l..=m
        let mut opts: Vec<Option<u8>> = vec![None, Some(l), Some(m)];
        for c in [rlen.wrapping_sub(1), rlen, rlen.saturating_add(1)] { if c >= l && c <= m { opts.push(Some(c)); } }
        let opts: Vec<Option<u8>> = opts.into_iter().filter(|o| {
            let res = o.unwrap_or(l);
            match want_ok { None => true, Some(ok) => (rlen <= res) == ok }
        }).collect();
        if opts.is_empty() { return Value::Null }
        match rng.pick(&opts) { None => Value::Null, Some(x) => json!(x) }
    };
    let pick_ml = |rng: &mut Rng, l: u8, want_ok: Option<bool>| pick_ml_fam(rng, l, want_ok, m);
    // a host route has no more specific prefix: use a sibling instead
    let kind = if kind == 4 && rlen == m { 5 } else { kind };
    match kind {
        // covering, length allowed, same AS  -> matched
        0 => { let l = rng.range(0, rlen as u64) as u8; let ml = pick_ml(rng, l, Some(true)); json!([pfx_str(v4, rbits, l), if ml.is_null() && l < rlen { json!(m) } else { ml }, rasn]) }
        // covering, length allowed, other AS -> unmatched_as
        1 => { let l = rng.range(0, rlen as u64) as u8; let ml = pick_ml(rng, l, Some(true)); json!([pfx_str(v4, rbits, l), if ml.is_null() && l < rlen { json!(m) } else { ml }, other_asn(rng)]) }
        // covering, max length too small, same AS -> unmatched_length
        2 => { let l = rng.range(0, rlen.saturating_sub(1) as u64) as u8; json!([pfx_str(v4, rbits, l), pick_ml(rng, l, Some(false)), rasn]) }
        // covering, fails both tests
        3 => { let l = rng.range(0, rlen.saturating_sub(1) as u64) as u8; json!([pfx_str(v4, rbits, l), pick_ml(rng, l, Some(false)), other_asn(rng)]) }
        // more specific than the route (does not cover)
        4 => {
            let l = rng.range(rlen as u64, m as u64) as u8;
            let l = if l == rlen && rlen < m { rlen + 1 } else { l };
            let ext = rbits | (rand_bits(rng, v4) & !top_mask(rlen));
            json!([pfx_str(v4, ext, l), pick_ml(rng, l, None), if rng.chance(1, 2) { rasn } else { other_asn(rng) }])
        }
        // sibling: one network bit flipped (does not cover)
        5 => {
            let l = rng.range(1, rlen.max(1) as u64) as u8;
            let bit = rng.range(0, l as u64 - 1) as u32;
            json!([pfx_str(v4, rbits ^ (1u128 << (127 - bit)), l), pick_ml(rng, l, None), rasn])
        }
        // other family, same left-aligned bits
        6 => {
            let o4 = !v4;
            let l = rng.range(0, rlen.min(fam_max(o4)) as u64) as u8;
            let bits = if o4 { rbits & top_mask(32) } else { rbits };
            json!([pfx_str(o4, bits, l), json!(fam_max(o4)), rasn])
        }
        // unrelated random
        _ => {
            let f4 = rng.chance(1, 2);
            let l = rng.range(if f4 { 8 } else { 16 }, if f4 { 24 } else { 48 }) as u8;
            json!([pfx_str(f4, rand_bits(rng, f4), l), pick_ml_fam(rng, l, None, fam_max(f4)), rng.range(64496, 64511)])
        }
    }
}

fn rand_route(rng: &mut Rng) -> (bool, u128, u8, u64) {
    let v4 = rng.chance(3, 5);
    let m = fam_max(v4);
    let len = match rng.below(10) { 0 => 0, 1 => m, 2 => m - 1, 3 => 1, _ => rng.range(if v4 { 8 } else { 16 }, if v4 { 28 } else { 64 }) as u8 };
    let bits = rand_bits(rng, v4) & top_mask(len);
    (v4, bits, len, rng.range(64496, 64511))
}

const MODES: [&str; 7] = ["api", "single_json", "list_single", "list_plain", "list_json", "http_path", "http_query"];

fn gen_validity(rng: &mut Rng, tier: &str) -> Vec<(String, Value)> {
    let mut cases = Vec::new();
    // (a) exhaustive small scope: prefixes of length <= 2 (one family at a time), max length <= 2 or absent,
    //     two AS numbers; every single VRP against every route, in the direct API mode
    for v4 in [true, false] {
        let mut pfx = Vec::new();
        for len in 0..=2u8 { for v in 0..(1u128 << len) { pfx.push((if len == 0 { 0 } else { v << (128 - len as u32) }, len)); } }
        let mut vrps = Vec::new();
        for &(b, l) in &pfx {
            for ml in std::iter::once(Value::Null).chain((l..=2).map(|x| json!(x))) {
                for asn in [64496u64, 64497] { vrps.push(json!([pfx_str(v4, b, l), ml, asn])); }
            }
        }
        for &(b, l) in &pfx {
            for asn in [64496u64, 64497] {
                for v in &vrps {
                    cases.push(("exhaustive.single_vrp_len2".into(), json!({"vrps": [v], "route": [pfx_str(v4, b, l), asn], "mode": "api"})));
                }
            }
        }
        // all pairs of VRPs for one route per family (aggregation of two classes)
        let route = json!([pfx_str(v4, 0b01u128 << 126, 2), 64496]);
        for (i, v) in vrps.iter().enumerate() {
            for w in &vrps[i..] {
                cases.push(("exhaustive.vrp_pairs_len2".into(), json!({"vrps": [v, w], "route": route, "mode": "api"})));
            }
        }
    }
    // (b) boundary: every subset of the four covering classes (match / other AS / too long / both) present or
    //     absent, with non-covering noise, every mode; lengths at the family boundaries
    for v4 in [true, false] {
        let m = fam_max(v4);
        for rlen in [1u8, 8, m - 1, m] {
            for mask in 0..16u32 {
                let mut r = rng.fork();
                let rbits = rand_bits(&mut r, v4) & top_mask(rlen);
                let rasn = 64500;
                let mut vrps = Vec::new();
                for k in 0..4u64 {
                    if mask & (1 << k) != 0 { for _ in 0..r.range(1, 2) { vrps.push(related_vrp(&mut r, v4, rbits, rlen, rasn, k)); } }
                }
                for k in 4..8u64 { vrps.push(related_vrp(&mut r, v4, rbits, rlen, rasn, k)); }
                r.shuffle(&mut vrps);
                let mode = MODES[(mask as usize + rlen as usize) % MODES.len()];
                cases.push((format!("boundary.class_subsets.{}", mode), json!({"vrps": vrps, "route": [pfx_str(v4, rbits, rlen), rasn], "mode": mode})));
            }
        }
        // the /0 route and a /0 VRP; host routes
        for (rl, vl, ml) in [(0u8, 0u8, Value::Null), (0, 0, json!(m)), (m, 0, Value::Null), (m, 0, json!(m)), (m, m, Value::Null), (m, m - 1, json!(m)), (m, m - 1, Value::Null)] {
            let bits = top_mask(m) & if v4 { top_mask(32) } else { u128::MAX };
            for asn in [64500u64, 64501] {
                cases.push(("boundary.zero_and_host".into(), json!({"vrps": [[pfx_str(v4, bits, vl), ml, 64500]], "route": [pfx_str(v4, bits, rl), asn], "mode": "api"})));
            }
        }
    }
    // empty data set
    for mode in MODES { cases.push(("boundary.empty_set".into(), json!({"vrps": [], "route": ["192.0.2.0/24", 64496], "mode": mode}))); }
    // (c) structured random: 0..30 VRPs around a random route, duplicates sometimes, every mode, batches with decoys
    let n = if tier == "thorough" { 12000 } else { 700 };
    for i in 0..n {
        let mut r = rng.fork();
        let (v4, rbits, rlen, rasn) = rand_route(&mut r);
        let nv = r.range(0, 20);
        let mut vrps = Vec::new();
        // bias: some cases without any match so that invalid / reason are reached often
        let allow_match = r.chance(1, 2);
        for _ in 0..nv {
            let mut kind = r.below(9);
            if kind == 0 && !allow_match { kind = 1 + r.below(3); }
            vrps.push(related_vrp(&mut r, v4, rbits, rlen, rasn, kind));
        }
        if !vrps.is_empty() && r.chance(1, 4) { for _ in 0..r.range(1, 3) { let d = r.pick(&vrps).clone(); vrps.push(d); } }
        r.shuffle(&mut vrps);
        let mode = MODES[i % MODES.len()];
        let mut c = json!({"vrps": vrps, "route": [pfx_str(v4, rbits, rlen), rasn], "mode": mode});
        if mode.starts_with("http_") {
            // the handler accepts host bits (from_str_relaxed), a bare AS number, and the arguments in any order
            if r.chance(1, 3) {
                let host = rand_bits(&mut r, v4) & !top_mask(rlen);
                let b = rbits | host;
                c["route"][0] = json!(if v4 { format!("{}/{}", Ipv4Addr::from((b >> 96) as u32), rlen) } else { format!("{}/{}", Ipv6Addr::from(b), rlen) });
            }
            c["as_prefix"] = json!(r.chance(1, 2));
            c["swap"] = json!(r.chance(1, 2));
        }
        if mode.starts_with("list_") && mode != "list_single" {
            let decoy = |r: &mut Rng| { let (a, b, c, d) = rand_route(r); json!([pfx_str(a, b, c), d]) };
            c["before"] = json!((0..r.range(0, 3)).map(|_| decoy(&mut r)).collect::<Vec<_>>());
            c["after"] = json!((0..r.range(0, 2)).map(|_| decoy(&mut r)).collect::<Vec<_>>());
        }
        cases.push((format!("random.{}", mode), c));
    }
    // (e) malformed requests to the HTTP endpoints: must be answered 400, never with a classification
    let some_vrps = json!([["10.0.0.0/8", 24, 64496], ["2001:db8::/32", 48, 64496]]);
    for t in ["/api/v1/validity/ASx/10.0.0.0/8", "/api/v1/validity/AS64496", "/api/v1/validity/", "/api/v1/validity/AS64496/10.0.0.0/33",
              "/api/v1/validity/AS64496/10.0.0.0", "/api/v1/validity/AS64496/::/129", "/api/v1/validity/4294967296/10.0.0.0/8",
              "/api/v1/validity/AS64496/10.0.0/8", "/api/v1/validity/AS64496/10.0.0.0/8/24", "/api/v1/validity/AS-1/10.0.0.0/8",
              "/validity", "/validity?asn=AS64496", "/validity?prefix=10.0.0.0%2F8", "/validity?asn=AS64496&prefix=10.0.0.0%2F8&x=1",
              "/validity?asn=AS64496&prefix=10.0.0.0%2F40", "/validity?asn=64496x&prefix=10.0.0.0%2F8", "/validity?asn=AS64496&prefix=2001:db8::%2F200"] {
        cases.push(("malformed.http".into(), json!({"vrps": some_vrps, "route": ["10.1.0.0/16", 64496],
            "mode": if t.starts_with("/api") { "http_path" } else { "http_query" }, "target": t, "expect": "reject"})));
    }
    for raw in ["10.0.0.0/8 -> AS64496", "10.0.0.1/8 => AS64496", "10.0.0.0/33 => AS64496", "10.0.0.0/8 => ASx", "10.0.0.0/8 =>",
                "10.0.0.0/8", "10.0.0.0/8 => AS64496 junk", "10.0.0.0 => AS64496", "::/129 => 1", "10.0.0.0/8 => 4294967296",
                "10.0.0.0/8 => AS64496\n10.0.0.0/8 AS64496"] {
        cases.push(("malformed.plain_list".into(), json!({"vrps": some_vrps, "route": ["10.1.0.0/16", 64496], "mode": "list_plain", "raw": raw})));
    }
    for raw in ["", "{", "{}", "[]", r#"{"routes": [{"prefix": "10.0.0.0/8"}]}"#, r#"{"routes": [{"asn": "AS1"}]}"#,
                r#"{"routes": [{"prefix": "10.0.0.1/8", "asn": "AS1"}]}"#, r#"{"routes": [{"prefix": "10.0.0.0/33", "asn": 1}]}"#,
                r#"{"routes": [{"prefix": "10.0.0.0/8", "asn": "ASx"}]}"#, r#"{"routes": [{"prefix": "10.0.0.0/8", "asn": 4294967296}]}"#,
                r#"{"routes": [{"prefix": 10, "asn": 1}]}"#, r#"{"routes": {"prefix": "10.0.0.0/8", "asn": 1}}"#] {
        cases.push(("malformed.json_list".into(), json!({"vrps": some_vrps, "route": ["10.1.0.0/16", 64496], "mode": "list_json", "raw": raw})));
    }
    // (d) large data sets
    let big = if tier == "thorough" { 6 } else { 2 };
    for i in 0..big {
        let mut r = rng.fork();
        let (v4, rbits, rlen, rasn) = rand_route(&mut r);
        let mut vrps = Vec::new();
        for _ in 0..(if tier == "thorough" { 1500 } else { 500 }) { vrps.push(related_vrp(&mut r, v4, rbits, rlen, rasn, 7)); }
        for _ in 0..60 { let k = r.below(7); vrps.push(related_vrp(&mut r, v4, rbits, rlen, rasn, k)); }
        r.shuffle(&mut vrps);
        cases.push(("random.large".into(), json!({"vrps": vrps, "route": [pfx_str(v4, rbits, rlen), rasn], "mode": MODES[i % 2]})));
    }
    balance(cases)
}

/// ./check evaluates the cases in 16 consecutive shards; deal the cases out by size so that the shards
/// carry the same load (order of cases has no meaning).
fn balance(mut cases: Vec<(String, Value)>) -> Vec<(String, Value)> {
    cases.sort_by_key(|c| std::cmp::Reverse(c.1["vrps"].as_array().map(|a| a.len()).unwrap_or(0)));
    let mut buckets: Vec<Vec<(String, Value)>> = (0..16).map(|_| Vec::new()).collect();
    for (i, c) in cases.into_iter().enumerate() { buckets[i % 16].push(c); }
    buckets.into_iter().flatten().collect()
}

struct Obs { state: u64, reason: u64, desc: u64, lists: [Vec<(RouteOrigin, u64)>; 3], extra_ok: bool }

fn state_code(s: &str) -> u64 { match s { "valid" => 0, "invalid" => 1, "not-found" => 2, _ => 99 } }
fn reason_code(r: Option<&str>) -> u64 { match r { None => 0, Some("as") => 1, Some("length") => 2, _ => 99 } }
fn desc_code(d: &str) -> u64 { DESCRIPTIONS.iter().position(|x| *x == d).map(|x| x as u64).unwrap_or(99) }

const NO_TAG: u64 = 999_999_999;

/// Observation through the typed accessors; positions by identity of the `&PayloadInfo` references.
fn obs_api(rv: &RouteValidity, snap: &PayloadSnapshot) -> Obs {
    let addrs: Vec<*const PayloadInfo> = snap.origins().map(|(_, i)| i as *const PayloadInfo).collect();
    let tag = |i: &PayloadInfo| addrs.iter().position(|a| std::ptr::eq(*a, i)).map(|x| x as u64).unwrap_or(NO_TAG);
    let list = |l: &[(RouteOrigin, &PayloadInfo)]| l.iter().map(|(o, i)| (*o, tag(i))).collect::<Vec<_>>();
    Obs {
        state: match rv.state() { RouteState::Valid => 0, RouteState::Invalid => 1, RouteState::NotFound => 2 },
        reason: reason_code(rv.reason()), desc: desc_code(rv.description()),
        lists: [list(rv.matched()), list(rv.bad_asn()), list(rv.bad_len())],
        extra_ok: state_code(&rv.state().to_string()) == match rv.state() { RouteState::Valid => 0, RouteState::Invalid => 1, RouteState::NotFound => 2 },
    }
}

/// Observation from the JSON rendering of one route (`write_single_json`): VRPs are printed as
/// (asn, prefix, resolved max length); each is mapped back to the first unused position of the
/// snapshot holding an equal item.
fn obs_json(v: &Value, snap: &PayloadSnapshot, route: (Prefix, Asn)) -> Obs {
    let origins: Vec<RouteOrigin> = snap.origins().map(|x| x.0).collect();
    let mut used = vec![false; origins.len()];
    let val = &v["validity"];
    let mut extra_ok = v["route"]["origin_asn"].as_str() == Some(&route.1.to_string())
        && v["route"]["prefix"].as_str() == Some(&route.0.to_string());
    let mut lists: [Vec<(RouteOrigin, u64)>; 3] = [vec![], vec![], vec![]];
    for (k, name) in ["matched", "unmatched_as", "unmatched_length"].iter().enumerate() {
        let Some(arr) = val["VRPs"][name].as_array() else { extra_ok = false; continue };
        for e in arr {
            let asn = e["asn"].as_str().and_then(|s| Asn::from_str(s).ok());
            let pfx = e["prefix"].as_str().and_then(|s| Prefix::from_str(s).ok());
            let ml = e["max_length"].as_str().and_then(|s| u8::from_str(s).ok());
            let (Some(asn), Some(pfx), Some(ml)) = (asn, pfx, ml) else { extra_ok = false; continue };
            let pos = (0..origins.len()).find(|&i| !used[i] && origins[i].asn == asn
                && origins[i].prefix.prefix() == pfx && origins[i].prefix.resolved_max_len() == ml);
            match pos {
                Some(i) => { used[i] = true; lists[k].push((origins[i], i as u64)); }
                None => match rpki::resources::addr::MaxLenPrefix::new(pfx, Some(ml)) {
                    Ok(mp) => lists[k].push((RouteOrigin::new(mp, asn), NO_TAG)),
                    Err(_) => extra_ok = false,
                }
            }
        }
    }
    Obs {
        state: val["state"].as_str().map(state_code).unwrap_or(99),
        reason: match val.get("reason") { None => 0, Some(r) => reason_code(Some(r.as_str().unwrap_or("?"))) },
        desc: val["description"].as_str().map(desc_code).unwrap_or(99),
        lists, extra_ok,
    }
}


thread_local! { static ENV: std::cell::RefCell<Option<Env>> = const { std::cell::RefCell::new(None) }; }

/// Percent-encoding for a query value (everything but unreserved characters).
fn pct(s: &str) -> String {
    s.bytes().map(|b| if b.is_ascii_alphanumeric() || b"-._~".contains(&b) { (b as char).to_string() } else { format!("%{:02X}", b) }).collect()
}

/// Installs the data set by a real validation cycle and sends one GET through the real dispatcher.
/// Returns the snapshot the server answered from, the status and the body.
fn http_get(vrps: &Value, target: &str) -> (std::sync::Arc<PayloadSnapshot>, u16, Vec<u8>) {
    ENV.with(|cell| {
        let mut slot = cell.borrow_mut();
        let env = slot.get_or_insert_with(|| Env::new(|c| { c.history_size = 2; }));
        env.cycle(&json!({"origins": vrps}), 0, false).expect("validation cycle");
        let snap = env.history.read().current().expect("current snapshot");
        let resp = env.get(target, &[]);
        (snap, resp.status, resp.body)
    })
}

fn bad_obs(code: u64) -> Obs { Obs { state: code, reason: code, desc: code, lists: [vec![], vec![], vec![]], extra_ok: false } }

fn coq_item(o: &RouteOrigin, tag: u64) -> String {
    let (v4, b, l) = fields(o.prefix.prefix());
    format!("V {} {} {} {} {} {}", coq_bool(v4), coq_bits(v4, b), l, coq_opt(o.prefix.max_len().map(|x| x.to_string())), o.asn.into_u32(), tag)
}

fn run_validity(input: &Value) -> CaseOut {
    if std::env::var("C20_DEBUG").is_ok() { eprintln!("{}", input); }
    let mode = input["mode"].as_str().unwrap_or("api");
    let rstr = input["route"][0].as_str().unwrap();
    let asn = Asn::from_u32(input["route"][1].as_u64().unwrap() as u32);
    if mode.starts_with("http_") { return run_http(input, mode, rstr, asn) }
    let snap = snapshot_of(&json!({"origins": input["vrps"]}));
    assert_eq!(snap.origins().count(), input["vrps"].as_array().unwrap().len(), "snapshot lost or invented VRPs");
    let prefix = Prefix::from_str(rstr).expect("route prefix");
    // malformed request lists: the reader must return an error (checked here; the emitted case is then the
    // typed-API answer for the given route, or the unknown state 94)
    if let Some(raw) = input["raw"].as_str() {
        let rejected = std::panic::catch_unwind(|| match mode {
            "list_plain" => RequestList::from_plain_reader(raw.as_bytes()).is_err(),
            _ => RequestList::from_json_reader(&mut raw.as_bytes()).is_err(),
        }).unwrap_or(false);
        let o = if rejected { obs_api(&RouteValidity::new(prefix, asn, &snap), &snap) } else { bad_obs(94) };
        return emit(&snap, prefix, asn, o)
    }
    let e = vec![];
    let before = input["before"].as_array().unwrap_or(&e);
    let after = input["after"].as_array().unwrap_or(&e);
    let res = std::panic::catch_unwind(std::panic::AssertUnwindSafe(|| -> Obs {
        match mode {
            "api" => obs_api(&RouteValidity::new(prefix, asn, &snap), &snap),
            "single_json" => {
                // what src/http/validity.rs::validity() sends: RouteValidity::new(..).into_json(&current)
                let bytes = RouteValidity::new(prefix, asn, &snap).into_json(&snap);
                match serde_json::from_slice::<Value>(&bytes) {
                    Ok(v) => obs_json(&v["validated_route"], &snap, (prefix, asn)),
                    Err(_) => bad_obs(98),
                }
            }
            _ => {
                let all: Vec<&Value> = before.iter().chain(std::iter::once(&input["route"])).chain(after.iter()).collect();
                let idx = before.len();
                let list = match mode {
                    "list_single" => RequestList::single(prefix, asn),
                    "list_plain" => {
                        let mut txt = String::from("\n  \n");
                        for (i, r) in all.iter().enumerate() {
                            let c = if i % 2 == 0 { "" } else { " # a comment => AS1" };
                            txt.push_str(&format!("{} => {}{}\n", r[0].as_str().unwrap(), if i % 3 == 0 { format!("AS{}", r[1]) } else { r[1].to_string() }, c));
                        }
                        RequestList::from_plain_reader(txt.as_bytes()).expect("plain request list")
                    }
                    _ => {
                        let routes: Vec<Value> = all.iter().enumerate().map(|(i, r)| json!({
                            "prefix": r[0], "asn": if i % 2 == 0 { json!(format!("AS{}", r[1])) } else { r[1].clone() } })).collect();
                        let txt = serde_json::to_vec(&json!({"routes": routes})).unwrap();
                        RequestList::from_json_reader(&mut txt.as_slice()).expect("json request list")
                    }
                };
                let vl = list.validity(&snap);
                let mut out = Vec::new();
                vl.write_json(&mut out).unwrap();
                let mut plain = Vec::new();
                vl.write_plain(&mut plain).unwrap();
                let states: Vec<(Prefix, Asn, RouteState)> = vl.iter_state().collect();
                match serde_json::from_slice::<Value>(&out) {
                    Ok(v) => {
                        let arr = v["validated_routes"].as_array().cloned().unwrap_or_default();
                        let mut o = obs_json(arr.get(idx).unwrap_or(&Value::Null), &snap, (prefix, asn));
                        // same number of answers as requests, iter_state and write_plain agree with the JSON state
                        o.extra_ok &= arr.len() == all.len() && states.len() == all.len();
                        if let Some((p, a, s)) = states.get(idx) {
                            o.extra_ok &= *p == prefix && *a == asn && state_code(&s.to_string()) == o.state;
                            let line = format!("{} => {}: {}", p, a, s);
                            o.extra_ok &= String::from_utf8_lossy(&plain).lines().nth(idx) == Some(line.as_str());
                        }
                        o
                    }
                    Err(_) => bad_obs(98),
                }
            }
        }
    }));
    let o = res.unwrap_or_else(|_| bad_obs(97));
    emit(&snap, prefix, asn, o)
}

/// GET /api/v1/validity/{asn}/{prefix} and GET /validity?asn=..&prefix=.. (src/http/validity.rs).
/// With "expect": "reject" the request is malformed and must be answered 400 without a classification
/// (checked here; the emitted case is then the typed-API answer for a fixed route, or an unknown state).
fn run_http(input: &Value, mode: &str, rstr: &str, asn: Asn) -> CaseOut {
    let reject = input["expect"].as_str() == Some("reject");
    let target = match input["target"].as_str() {
        Some(t) => t.to_string(),
        None => {
            let a = if input["as_prefix"].as_bool() == Some(false) { asn.into_u32().to_string() } else { asn.to_string() };
            if mode == "http_path" { format!("/api/v1/validity/{}/{}", a, rstr) }
            else if input["swap"].as_bool() == Some(true) { format!("/validity?prefix={}&asn={}", pct(rstr), a) }
            else { format!("/validity?asn={}&prefix={}", a, pct(rstr)) }
        }
    };
    let res = std::panic::catch_unwind(std::panic::AssertUnwindSafe(|| http_get(&input["vrps"], &target)));
    let Ok((snap, status, body)) = res else {
        let snap = snapshot_of(&json!({"origins": input["vrps"]}));
        return emit(&snap, Prefix::from_str_relaxed(rstr).expect("route prefix"), asn, bad_obs(97))
    };
    // the handler parses the prefix with from_str_relaxed: host bits are cleared
    let prefix = Prefix::from_str_relaxed(rstr).expect("route prefix");
    let o = if reject {
        if status == 400 && serde_json::from_slice::<Value>(&body).map(|v| v.get("validated_route").is_none()).unwrap_or(true) {
            obs_api(&RouteValidity::new(prefix, asn, &snap), &snap)
        } else { bad_obs(94) }
    } else if status != 200 { bad_obs(95) } else {
        match serde_json::from_slice::<Value>(&body) {
            Ok(v) => obs_json(&v["validated_route"], &snap, (prefix, asn)),
            Err(_) => bad_obs(98),
        }
    };
    emit(&snap, prefix, asn, o)
}

fn emit(snap: &PayloadSnapshot, prefix: Prefix, asn: Asn, o: Obs) -> CaseOut {
    let (rv4, rb, rl) = fields(prefix);
    let lists_json = |l: &Vec<(RouteOrigin, u64)>| l.iter().map(|(x, t)| json!([x.prefix.prefix().to_string(), x.prefix.max_len(), x.asn.into_u32(), t])).collect::<Vec<_>>();
    let obs = json!({
        "state": o.state, "reason": o.reason, "description": o.desc, "side_checks_ok": o.extra_ok,
        "matched": lists_json(&o.lists[0]), "unmatched_as": lists_json(&o.lists[1]), "unmatched_length": lists_json(&o.lists[2]),
        "n_vrps": snap.origins().count(), "route": [prefix.to_string(), asn.into_u32()],
    });
    let cl = |l: &Vec<(RouteOrigin, u64)>| coq_list(l.iter(), |(x, t)| coq_item(x, *t));
    let coq = format!(
        "{{| c_route := R {} {} {} {}; c_vrps := {}; c_impl := {{| o_state := {}; o_reason := {}; o_desc := {}; o_matched := {}; o_bad_asn := {}; o_bad_len := {} |}} |}}",
        coq_bool(rv4), coq_bits(rv4, rb), rl, asn.into_u32(),
        coq_list(snap.origins().enumerate(), |(i, (x, _))| coq_item(&x, i as u64)),
        // a failed side check (route echo, counts, iter_state / write_plain agreement) is reported as an unknown state
        if o.extra_ok { o.state } else { 96 }, o.reason, o.desc, cl(&o.lists[0]), cl(&o.lists[1]), cl(&o.lists[2]));
    CaseOut { obs, coq, nontrivial: o.state != 2 }
}

fn main() {
    match std::env::var("C20_STREAM").unwrap_or_default().as_str() {
        "prefix" => drive(
            |rng, tier| {
                let mut c: Vec<(String, Value)> = gen_covers(rng, tier).into_iter().map(|(k, v)| (format!("covers.{}", k), v)).collect();
                c.extend(gen_parse(rng, tier).into_iter().map(|(k, v)| (format!("parse.{}", k), v)));
                // interleave so that the 16 evaluation shards carry the same load
                let mut buckets: Vec<Vec<(String, Value)>> = (0..16).map(|_| Vec::new()).collect();
                for (i, x) in c.into_iter().enumerate() { buckets[i % 16].push(x); }
                buckets.into_iter().flatten().collect()
            },
            |input| if input.get("a").is_some() { run_covers(input) } else { run_parse(input) }),
        _ => drive(gen_validity, run_validity),
    }
}
