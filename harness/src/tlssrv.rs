//! A small blocking HTTPS/1.1 server on 127.0.0.1 for the RRDP collector's HTTP client (C29, C38).
//! Fixture certificate `fixtures/tls-localhost.cert.pem` (self-signed, SAN DNS:localhost, not a CA); pass
//! `root_cert_path()` through `config.rrdp_root_certs` and use URIs `https://localhost:<port>/...`.
//! Included with `#[path]` by the binaries that need it.
#![allow(dead_code)]
use std::collections::HashMap;
use std::io::{Read, Write};
use std::path::PathBuf;
use std::sync::{Arc, Mutex};

#[derive(Clone, Copy, Debug, PartialEq, Eq)]
pub enum BodyMode {
    /// `Content-Length: n`, body, connection kept alive.
    ContentLength,
    /// `Transfer-Encoding: chunked` (no Content-Length header).
    Chunked,
    /// Neither header; the body ends when the server closes the connection.
    Close,
}

#[derive(Clone)]
pub struct Canned {
    pub status: u16,
    pub mode: BodyMode,
    pub body: Arc<Vec<u8>>,
    /// Size of the pieces the body is written in (0 = all at once).
    pub piece: usize,
    /// With `ContentLength`: declare this length instead of the real one (the connection is closed after the body).
    pub declare: Option<u64>,
}

impl Canned {
    pub fn status(status: u16) -> Self {
        Canned { status, mode: BodyMode::ContentLength, body: Arc::new(Vec::new()), piece: 0, declare: None }
    }
    pub fn ok(mode: BodyMode, body: Arc<Vec<u8>>, piece: usize) -> Self {
        Canned { status: 200, mode, body, piece, declare: None }
    }
}

pub struct Server {
    pub port: u16,
    routes: Arc<Mutex<HashMap<String, Canned>>>,
    hits: Arc<Mutex<HashMap<String, u64>>>,
}

pub fn root_cert_path() -> PathBuf {
    PathBuf::from(concat!(env!("CARGO_MANIFEST_DIR"), "/fixtures/tls-localhost.cert.pem"))
}

fn tls_config() -> Arc<rustls::ServerConfig> {
    let certs: Vec<_> = rustls_pemfile::certs(&mut &include_bytes!("../fixtures/tls-localhost.cert.pem")[..])
        .collect::<Result<_, _>>().expect("fixture cert");
    let key = rustls_pemfile::private_key(&mut &include_bytes!("../fixtures/tls-localhost.key.pem")[..])
        .expect("fixture key").expect("fixture key present");
    let cfg = rustls::ServerConfig::builder_with_provider(Arc::new(rustls::crypto::ring::default_provider()))
        .with_safe_default_protocol_versions().expect("versions")
        .with_no_client_auth()
        .with_single_cert(certs, key).expect("server cert");
    Arc::new(cfg)
}

impl Server {
    pub fn start() -> Server {
        let listener = std::net::TcpListener::bind("127.0.0.1:0").expect("bind");
        let port = listener.local_addr().unwrap().port();
        let routes: Arc<Mutex<HashMap<String, Canned>>> = Default::default();
        let hits: Arc<Mutex<HashMap<String, u64>>> = Default::default();
        let cfg = tls_config();
        let (r2, h2) = (routes.clone(), hits.clone());
        std::thread::spawn(move || {
            for c in listener.incoming() {
                let Ok(c) = c else { continue };
                let (cfg, routes, hits) = (cfg.clone(), r2.clone(), h2.clone());
                std::thread::spawn(move || { let _ = serve(c, cfg, routes, hits); });
            }
        });
        Server { port, routes, hits }
    }
    pub fn set(&self, path: &str, c: Canned) { self.routes.lock().unwrap().insert(path.to_string(), c); }
    pub fn unset(&self, path: &str) { self.routes.lock().unwrap().remove(path); }
    pub fn hits(&self, path: &str) -> u64 { self.hits.lock().unwrap().get(path).copied().unwrap_or(0) }
    pub fn uri(&self, path: &str) -> String { format!("https://localhost:{}{}", self.port, path) }
}

fn write_pieces(w: &mut impl Write, data: &[u8], piece: usize) -> std::io::Result<()> {
    if piece == 0 || piece >= data.len() { w.write_all(data)?; return w.flush() }
    for p in data.chunks(piece) { w.write_all(p)?; w.flush()?; }
    Ok(())
}

fn serve(
    tcp: std::net::TcpStream, cfg: Arc<rustls::ServerConfig>,
    routes: Arc<Mutex<HashMap<String, Canned>>>, hits: Arc<Mutex<HashMap<String, u64>>>,
) -> std::io::Result<()> {
    tcp.set_read_timeout(Some(std::time::Duration::from_secs(30)))?;
    tcp.set_nodelay(true)?;
    let conn = rustls::ServerConnection::new(cfg).map_err(std::io::Error::other)?;
    let mut tls = rustls::StreamOwned::new(conn, tcp);
    let mut buf: Vec<u8> = Vec::new();
    loop {
        // request head
        let end = loop {
            if let Some(p) = buf.windows(4).position(|w| w == b"\r\n\r\n") { break p + 4 }
            let mut b = [0u8; 2048];
            match tls.read(&mut b) { Ok(0) => return Ok(()), Ok(n) => buf.extend_from_slice(&b[..n]), Err(e) => return Err(e) }
        };
        let head = String::from_utf8_lossy(&buf[..end]).to_string();
        buf.drain(..end);
        let path = head.split_whitespace().nth(1).unwrap_or("/").to_string();
        *hits.lock().unwrap().entry(path.clone()).or_default() += 1;
        let canned = routes.lock().unwrap().get(&path).cloned().unwrap_or_else(|| Canned::status(404));
        let reason = match canned.status { 200 => "OK", 304 => "Not Modified", 404 => "Not Found", _ => "Status" };
        let mut out = format!("HTTP/1.1 {} {}\r\nContent-Type: application/octet-stream\r\n", canned.status, reason);
        let mut close = false;
        if canned.status == 304 {
            out.push_str("\r\n");
            tls.write_all(out.as_bytes())?;
            tls.flush()?;
            continue;
        }
        match canned.mode {
            BodyMode::ContentLength => {
                let n = canned.declare.unwrap_or(canned.body.len() as u64);
                if canned.declare.is_some() { close = true; out.push_str("Connection: close\r\n"); }
                out.push_str(&format!("Content-Length: {}\r\n\r\n", n));
                tls.write_all(out.as_bytes())?;
                write_pieces(&mut tls, &canned.body, canned.piece)?;
            }
            BodyMode::Chunked => {
                out.push_str("Transfer-Encoding: chunked\r\n\r\n");
                tls.write_all(out.as_bytes())?;
                let piece = if canned.piece == 0 { canned.body.len().max(1) } else { canned.piece };
                for p in canned.body.chunks(piece) {
                    tls.write_all(format!("{:x}\r\n", p.len()).as_bytes())?;
                    tls.write_all(p)?;
                    tls.write_all(b"\r\n")?;
                    tls.flush()?;
                }
                tls.write_all(b"0\r\n\r\n")?;
                tls.flush()?;
            }
            BodyMode::Close => {
                close = true;
                out.push_str("Connection: close\r\n\r\n");
                tls.write_all(out.as_bytes())?;
                write_pieces(&mut tls, &canned.body, canned.piece)?;
            }
        }
        tls.flush()?;
        if close {
            tls.conn.send_close_notify();
            let _ = tls.flush();
            let _ = tls.sock.shutdown(std::net::Shutdown::Both);
            return Ok(())
        }
    }
}
