//! The "fetch server" (DESIGN.md section 3.3): a harness-side HTTPS/1.1 server on `127.0.0.1:<ephemeral port>`
//! that serves canned responses (`path -> status, headers, body`; including 304, error statuses, bodies shorter
//! than the declared Content-Length, wrong content) and logs every request in arrival order.
//!
//! TLS: `fixtures/tls/server.cert.pem` (SAN DNS:localhost) issued by the fixture CA `fixtures/tls/ca.cert.pem`;
//! Routinator is pointed at the CA through `config.rrdp_root_certs = vec![ca_cert_path()]` and needs
//! `allow_dubious_hosts = true` (localhost + explicit port).  Nothing is generated at run time.
//!
//! The server runs on its own threads (one acceptor, one per connection), plain blocking rustls: the RRDP
//! collector uses reqwest's blocking client, which owns its own runtime.  Connections are kept alive (a new
//! connection per request costs a name lookup and a handshake each) except after a response whose body is
//! shorter than declared; the collector issues its requests one after the other, so the log order is the
//! request order.
//! Routes are keyed by the request path; the harness gives every case its own path prefix, so any number of
//! cases can share one server concurrently.
use std::collections::HashMap;
use std::io::{Read, Write};
use std::path::PathBuf;
use std::sync::{Arc, Mutex};

#[derive(Clone, Debug)]
pub struct Canned {
    pub status: u16,
    /// Extra response headers (e.g. ETag, Last-Modified).
    pub headers: Vec<(String, String)>,
    pub body: Arc<Vec<u8>>,
    /// Declare this Content-Length instead of the real one (a larger value = truncated transfer).
    pub declare: Option<u64>,
    /// An entity tag (complete, with quotes): sent as `ETag` with the response; a request whose `If-None-Match`
    /// is this tag is answered `304 Not Modified` instead.
    pub etag: Option<String>,
}

impl Canned {
    pub fn status(status: u16) -> Self { Canned { status, headers: Vec::new(), body: Arc::new(Vec::new()), declare: None, etag: None } }
    pub fn ok(body: Vec<u8>) -> Self { Canned { status: 200, headers: Vec::new(), body: Arc::new(body), declare: None, etag: None } }
    pub fn with_etag(mut self, tag: &str) -> Self { self.etag = Some(tag.to_string()); self }
    pub fn with_header(mut self, k: &str, v: &str) -> Self { self.headers.push((k.to_string(), v.to_string())); self }
    /// The body is cut after `keep` bytes although the full length is declared.
    pub fn truncated(body: Vec<u8>, keep: usize) -> Self {
        let n = body.len() as u64;
        let mut b = body;
        b.truncate(keep);
        Canned { status: 200, headers: Vec::new(), body: Arc::new(b), declare: Some(n), etag: None }
    }
}

#[derive(Clone, Debug)]
pub struct Request {
    pub path: String,
    /// Lower-cased header names.
    pub headers: Vec<(String, String)>,
}

impl Request {
    pub fn header(&self, name: &str) -> Option<&str> {
        self.headers.iter().find(|(k, _)| k == name).map(|(_, v)| v.as_str())
    }
}

pub struct Server {
    pub port: u16,
    routes: Arc<Mutex<HashMap<String, Canned>>>,
    log: Arc<Mutex<Vec<Request>>>,
}

pub fn ca_cert_path() -> PathBuf {
    PathBuf::from(concat!(env!("CARGO_MANIFEST_DIR"), "/fixtures/tls/ca.cert.pem"))
}

fn tls_config() -> Arc<rustls::ServerConfig> {
    let certs: Vec<_> = rustls_pemfile::certs(&mut &include_bytes!("../fixtures/tls/server.cert.pem")[..])
        .collect::<Result<_, _>>().expect("fixture server certificate");
    let key = rustls_pemfile::private_key(&mut &include_bytes!("../fixtures/tls/server.key.pem")[..])
        .expect("fixture server key").expect("fixture server key present");
    let cfg = rustls::ServerConfig::builder_with_provider(Arc::new(rustls::crypto::ring::default_provider()))
        .with_safe_default_protocol_versions().expect("protocol versions")
        .with_no_client_auth()
        .with_single_cert(certs, key).expect("server certificate");
    Arc::new(cfg)
}

impl Server {
    pub fn start() -> Server {
        let listener = std::net::TcpListener::bind("127.0.0.1:0").expect("bind 127.0.0.1:0");
        let port = listener.local_addr().unwrap().port();
        let routes: Arc<Mutex<HashMap<String, Canned>>> = Default::default();
        let log: Arc<Mutex<Vec<Request>>> = Default::default();
        let cfg = tls_config();
        let (r2, l2) = (routes.clone(), log.clone());
        std::thread::Builder::new().name("rrdpsrv-accept".into()).spawn(move || {
            for c in listener.incoming() {
                let Ok(c) = c else { continue };
                let (cfg, routes, log) = (cfg.clone(), r2.clone(), l2.clone());
                let _ = std::thread::Builder::new().name("rrdpsrv-conn".into())
                    .spawn(move || { let _ = serve(c, cfg, routes, log); });
            }
        }).expect("spawn acceptor");
        Server { port, routes, log }
    }

    pub fn authority(&self) -> String { format!("localhost:{}", self.port) }
    pub fn uri(&self, path: &str) -> String { format!("https://localhost:{}{}", self.port, path) }

    pub fn set(&self, path: &str, c: Canned) { self.routes.lock().unwrap().insert(path.to_string(), c); }
    pub fn unset(&self, path: &str) { self.routes.lock().unwrap().remove(path); }
    /// Removes every route whose path starts with `prefix`.
    pub fn clear_prefix(&self, prefix: &str) { self.routes.lock().unwrap().retain(|k, _| !k.starts_with(prefix)); }
    /// Removes and returns the logged requests whose path starts with `prefix` (arrival order).
    pub fn take_log(&self, prefix: &str) -> Vec<Request> {
        let mut log = self.log.lock().unwrap();
        let mut res = Vec::new();
        let mut keep = Vec::new();
        for r in log.drain(..) { if r.path.starts_with(prefix) { res.push(r) } else { keep.push(r) } }
        *log = keep;
        res
    }
}

fn reason(status: u16) -> &'static str {
    match status {
        200 => "OK", 204 => "No Content", 301 => "Moved Permanently", 302 => "Found", 304 => "Not Modified",
        400 => "Bad Request", 403 => "Forbidden", 404 => "Not Found", 500 => "Internal Server Error",
        503 => "Service Unavailable", _ => "Status",
    }
}

fn serve(
    tcp: std::net::TcpStream, cfg: Arc<rustls::ServerConfig>,
    routes: Arc<Mutex<HashMap<String, Canned>>>, log: Arc<Mutex<Vec<Request>>>,
) -> std::io::Result<()> {
    // an idle kept-alive connection is closed by the client (when its pool drops it), not by a timeout here
    tcp.set_read_timeout(Some(std::time::Duration::from_secs(3600)))?;
    tcp.set_nodelay(true)?;
    let conn = rustls::ServerConnection::new(cfg).map_err(std::io::Error::other)?;
    let mut tls = rustls::StreamOwned::new(conn, tcp);
    let mut buf: Vec<u8> = Vec::new();
    loop {
        let end = loop {
            if let Some(p) = buf.windows(4).position(|w| w == b"\r\n\r\n") { break p + 4 }
            let mut b = [0u8; 4096];
            match tls.read(&mut b) { Ok(0) => return Ok(()), Ok(n) => buf.extend_from_slice(&b[..n]), Err(e) => return Err(e) }
        };
        let head = String::from_utf8_lossy(&buf[..end]).to_string();
        buf.drain(..end);
        let mut lines = head.split("\r\n");
        let path = lines.next().unwrap_or("").split_whitespace().nth(1).unwrap_or("/").to_string();
        let headers: Vec<(String, String)> = lines.filter_map(|l| {
            let (k, v) = l.split_once(':')?;
            Some((k.trim().to_ascii_lowercase(), v.trim().to_string()))
        }).collect();
        let mut canned = routes.lock().unwrap().get(&path).cloned().unwrap_or_else(|| Canned::status(404));
        if let Some(tag) = canned.etag.clone() {
            if headers.iter().any(|(k, v)| k == "if-none-match" && *v == tag) { canned = Canned::status(304); }
            canned.headers.push(("ETag".to_string(), tag));
        }
        log.lock().unwrap().push(Request { path, headers });
        // a body shorter than declared can only be ended by closing the connection
        let close = canned.declare.is_some();
        let mut out = format!("HTTP/1.1 {} {}\r\n", canned.status, reason(canned.status));
        if close { out.push_str("Connection: close\r\n"); }
        for (k, v) in &canned.headers { out.push_str(&format!("{}: {}\r\n", k, v)); }
        if canned.status == 304 || canned.status == 204 {
            out.push_str("\r\n");
            tls.write_all(out.as_bytes())?;
        }
        else {
            let n = canned.declare.unwrap_or(canned.body.len() as u64);
            out.push_str(&format!("Content-Type: application/xml\r\nContent-Length: {}\r\n\r\n", n));
            tls.write_all(out.as_bytes())?;
            tls.write_all(&canned.body)?;
        }
        tls.flush()?;
        if close {
            tls.conn.send_close_notify();
            let _ = tls.flush();
            let _ = tls.sock.shutdown(std::net::Shutdown::Write);
            // drain until the peer closes so that the close is orderly
            let mut sink = [0u8; 512];
            while let Ok(n) = tls.sock.read(&mut sink) { if n == 0 { break } }
            return Ok(())
        }
    }
}
