//! Payload data sets from plain JSON specs, and their rank encoding for Coq.
//!
//! A spec is {"origins":[[prefix,maxlen,asn]..],"keys":[[ski,asn,[keyinfo..]]..],
//! "aspas":[[customer,[providers..]]..]}.  Route origins and router keys are
//! mapped to their rank in the implementation's own `Ord` over the universe of
//! items that occur in a case, so the model runs over `N`.
use std::str::FromStr;
use std::sync::Arc;
use bytes::Bytes;
use rpki::crypto::KeyIdentifier;
use rpki::resources::addr::{MaxLenPrefix, Prefix};
use rpki::resources::asn::Asn;
use rpki::rtr::payload::{Action, Aspa, PayloadRef, RouteOrigin, RouterKey};
use rpki::rtr::pdu::{ProviderAsns, RouterKeyInfo};
use routinator::payload::{PayloadDelta, PayloadInfo, PayloadSnapshot};
use routinator::slurm::ExceptionInfo;
use serde_json::{json, Value};
use crate::util::*;

pub fn info() -> PayloadInfo { PayloadInfo::from(Arc::new(ExceptionInfo::default())) }

pub fn origin_of(v: &Value) -> RouteOrigin {
    let p = Prefix::from_str(v[0].as_str().unwrap()).expect("prefix");
    let ml = v[1].as_u64().map(|x| x as u8);
    RouteOrigin::new(MaxLenPrefix::new(p, ml).expect("maxlen"), Asn::from_u32(v[2].as_u64().unwrap() as u32))
}
pub fn key_of(v: &Value) -> RouterKey {
    let ski = [v[0].as_u64().unwrap() as u8; 20];
    let info: Vec<u8> = v[2].as_array().unwrap().iter().map(|x| x.as_u64().unwrap() as u8).collect();
    RouterKey::new(KeyIdentifier::from(ski), Asn::from_u32(v[1].as_u64().unwrap() as u32),
        RouterKeyInfo::new(Bytes::from(info)).expect("keyinfo"))
}
pub fn aspa_of(v: &Value) -> Aspa {
    let provs = v[1].as_array().unwrap().iter().map(|x| Asn::from_u32(x.as_u64().unwrap() as u32));
    Aspa::new(Asn::from_u32(v[0].as_u64().unwrap() as u32), ProviderAsns::try_from_iter(provs).expect("providers"))
}

pub fn snapshot_of(spec: &Value) -> PayloadSnapshot {
    let e = vec![];
    PayloadSnapshot::new(
        spec["origins"].as_array().unwrap_or(&e).iter().map(|v| (origin_of(v), info())),
        spec["keys"].as_array().unwrap_or(&e).iter().map(|v| (key_of(v), info())),
        spec["aspas"].as_array().unwrap_or(&e).iter().map(|v| (aspa_of(v), info())),
        None,
    )
}

/// The universe of items of a generator: pools to draw subsets from.
pub struct Universe {
    pub origins: Vec<Value>,
    pub keys: Vec<Value>,
    pub customers: Vec<u32>,
    pub providers: Vec<u32>,
}

impl Universe {
    pub fn new(rng: &mut Rng, n_orig: usize, n_keys: usize, n_cust: usize) -> Self {
        let mut origins = Vec::new();
        let mut seen = std::collections::HashSet::new();
        while origins.len() < n_orig {
            let v = if rng.chance(2, 3) {
                let len = rng.range(8, 24) as u8;
                let addr = (rng.next() as u32) & (!0u32 << (32 - len as u32));
                let ml = if rng.chance(1, 2) { Value::Null } else { json!(rng.range(len as u64, 32)) };
                json!([format!("{}/{}", std::net::Ipv4Addr::from(addr), len), ml, rng.range(64496, 64511)])
            } else {
                let len = rng.range(16, 48) as u8;
                let addr = ((rng.next() as u128) << 64) & (!0u128 << (128 - len as u32));
                let ml = if rng.chance(1, 2) { Value::Null } else { json!(rng.range(len as u64, 128)) };
                json!([format!("{}/{}", std::net::Ipv6Addr::from(addr), len), ml, rng.range(64496, 64511)])
            };
            let o = origin_of(&v);
            // distinct by the implementation's Eq (max-len None == prefix length)
            if seen.insert((o.prefix.prefix(), o.prefix.resolved_max_len(), o.asn)) { origins.push(v); }
        }
        let mut keys = Vec::new();
        for i in 0..n_keys {
            let kl = rng.range(1, 6) as usize;
            let ki: Vec<u8> = (0..kl).map(|_| rng.below(256) as u8).collect();
            keys.push(json!([i as u64 % 7, rng.range(64496, 64500), ki]));
        }
        keys.sort_by(|a, b| key_of(a).cmp(&key_of(b)));
        keys.dedup_by(|a, b| key_of(a) == key_of(b));
        let customers: Vec<u32> = (0..n_cust as u32).map(|i| 65000 + i * 3).collect();
        let providers: Vec<u32> = (0..8u32).map(|i| 100 + i).collect();
        Universe { origins, keys, customers, providers }
    }

    /// A random data set: each pool item with probability num/den.
    pub fn snap(&self, rng: &mut Rng, num: u64, den: u64) -> Value {
        let mut o: Vec<Value> = self.origins.iter().filter(|_| rng.chance(num, den)).cloned().collect();
        let mut k: Vec<Value> = self.keys.iter().filter(|_| rng.chance(num, den)).cloned().collect();
        rng.shuffle(&mut o);
        rng.shuffle(&mut k);
        let mut a = Vec::new();
        for c in &self.customers {
            if rng.chance(num, den) { a.push(json!([c, self.provs(rng)])); }
        }
        rng.shuffle(&mut a);
        json!({"origins": o, "keys": k, "aspas": a})
    }

    pub fn provs(&self, rng: &mut Rng) -> Vec<u32> {
        let mut p: Vec<u32> = self.providers.iter().filter(|_| rng.chance(1, 3)).cloned().collect();
        p.sort();
        p
    }

    /// A small mutation of a data set (add / remove / change providers).
    pub fn mutate(&self, rng: &mut Rng, s: &Value) -> Value {
        let mut o: Vec<Value> = s["origins"].as_array().unwrap().clone();
        let mut k: Vec<Value> = s["keys"].as_array().unwrap().clone();
        let mut a: Vec<Value> = s["aspas"].as_array().unwrap().clone();
        let n = rng.range(0, 3);
        for _ in 0..n {
            match rng.below(7) {
                0 => { if !self.origins.is_empty() { let x = rng.pick(&self.origins).clone(); if !o.contains(&x) { o.push(x) } } }
                1 => { if !o.is_empty() { let i = rng.below(o.len() as u64) as usize; o.remove(i); } }
                2 => { if !self.keys.is_empty() { let x = rng.pick(&self.keys).clone(); if !k.contains(&x) { k.push(x) } } }
                3 => { if !k.is_empty() { let i = rng.below(k.len() as u64) as usize; k.remove(i); } }
                4 => {
                    if !self.customers.is_empty() {
                        let c = *rng.pick(&self.customers);
                        if !a.iter().any(|x| x[0] == json!(c)) { a.push(json!([c, self.provs(rng)])) }
                    }
                }
                5 => { if !a.is_empty() { let i = rng.below(a.len() as u64) as usize; a.remove(i); } }
                _ => { if !a.is_empty() { let i = rng.below(a.len() as u64) as usize; a[i][1] = json!(self.provs(rng)); } }
            }
        }
        json!({"origins": o, "keys": k, "aspas": a})
    }
}

/// Rank encoding of route origins and router keys over a set of snapshots.
pub struct Ranker { origins: Vec<RouteOrigin>, keys: Vec<RouterKey> }

impl Ranker {
    pub fn new<'a>(snaps: impl IntoIterator<Item = &'a PayloadSnapshot>) -> Self {
        let mut origins = Vec::new();
        let mut keys = Vec::new();
        for s in snaps {
            origins.extend(s.origins().map(|x| x.0));
            keys.extend(s.router_keys().map(|x| x.0.clone()));
        }
        origins.sort();
        origins.dedup();
        keys.sort();
        keys.dedup();
        Ranker { origins, keys }
    }
    pub fn origin(&self, o: &RouteOrigin) -> u64 {
        // linear scan with Eq, so that a broken Ord/Eq pair cannot hide items
        self.origins.iter().position(|x| x == o).map(|i| i as u64).unwrap_or(999_999_999)
    }
    pub fn key(&self, k: &RouterKey) -> u64 {
        self.keys.iter().position(|x| x == k).map(|i| i as u64).unwrap_or(999_999_999)
    }
}

pub fn coq_snapshot(s: &PayloadSnapshot, r: &Ranker) -> String {
    format!("{{| origins := {}; rkeys := {}; aspas := {} |}}",
        coq_list(s.origins(), |(o, _)| format!("({},tt)", r.origin(&o))),
        coq_list(s.router_keys(), |(k, _)| format!("({},tt)", r.key(k))),
        coq_list(s.aspas(), |(a, _)| format!("({},{})", a.customer.into_u32(), coq_nlist(a.providers.iter().map(|x| x.into_u32())))),
    )
}

pub fn json_snapshot(s: &PayloadSnapshot, r: &Ranker) -> Value {
    json!({
        "origins": s.origins().map(|(o, _)| r.origin(&o)).collect::<Vec<_>>(),
        "keys": s.router_keys().map(|(k, _)| r.key(k)).collect::<Vec<_>>(),
        "aspas": s.aspas().map(|(a, _)| json!([a.customer.into_u32(), a.providers.iter().map(|x| x.into_u32()).collect::<Vec<_>>()])).collect::<Vec<_>>(),
    })
}

/// The wire view of a delta, split per payload type as the C11 `obs` record.
pub struct WireDelta {
    pub origins: Vec<(u64, bool)>,
    pub keys: Vec<(u64, bool)>,
    pub aspas: Vec<(u64, Vec<u32>, bool)>,
    /// the type tags in the order `actions()` yielded them (0,1,2)
    pub order: Vec<u8>,
}

pub fn wire_of_actions<'a>(it: impl Iterator<Item = (PayloadRef<'a>, Action)>, r: &Ranker) -> WireDelta {
    let mut w = WireDelta { origins: vec![], keys: vec![], aspas: vec![], order: vec![] };
    for (p, a) in it {
        let wd = a.is_withdraw();
        match p {
            PayloadRef::Origin(o) => { w.origins.push((r.origin(&o), wd)); w.order.push(0) }
            PayloadRef::RouterKey(k) => { w.keys.push((r.key(k), wd)); w.order.push(1) }
            PayloadRef::Aspa(x) => {
                w.aspas.push((x.customer.into_u32() as u64, x.providers.iter().map(|y| y.into_u32()).collect(), wd));
                w.order.push(2)
            }
        }
    }
    w
}

pub fn wire_of_delta(d: &PayloadDelta, r: &Ranker) -> WireDelta { wire_of_actions(d.actions(), r) }

impl WireDelta {
    /// true if the actions came grouped origins, then keys, then ASPAs
    pub fn grouped(&self) -> bool { self.order.windows(2).all(|w| w[0] <= w[1]) }
    pub fn coq_fields(&self) -> String {
        format!("o_origins := {}; o_rkeys := {}; o_aspas := {}",
            coq_list(self.origins.iter(), |(k, w)| format!("({},tt,{})", k, coq_bool(*w))),
            coq_list(self.keys.iter(), |(k, w)| format!("({},tt,{})", k, coq_bool(*w))),
            coq_list(self.aspas.iter(), |(k, p, w)| format!("({},{},{})", k, coq_nlist(p.iter()), coq_bool(*w))))
    }
    pub fn json(&self) -> Value {
        json!({"origins": self.origins, "keys": self.keys, "aspas": self.aspas, "grouped": self.grouped()})
    }
}
