//! PRNG, Coq term printers and the common driver of every family binary.
//!
//! Every family binary is invoked as
//!   <bin> gen    --seed N --tier quick|thorough --out DIR
//!   <bin> replay --case FILE --out DIR
//! and writes DIR/cases.jsonl (one JSON object per case: class, input, impl
//! observation), DIR/cases.coq (one Coq term per line, same order) and
//! DIR/stats.json (measured input distribution).

use std::collections::BTreeMap;
use std::fmt::Write as _;
use std::io::Write as _;
use serde_json::{json, Value};

//------------ SplitMix64 ----------------------------------------------------

#[derive(Clone, Debug)]
pub struct Rng(pub u64);

impl Rng {
    pub fn new(seed: u64) -> Self { Rng(seed ^ 0x9E37_79B9_7F4A_7C15) }
    pub fn next(&mut self) -> u64 {
        self.0 = self.0.wrapping_add(0x9E37_79B9_7F4A_7C15);
        let mut z = self.0;
        z = (z ^ (z >> 30)).wrapping_mul(0xBF58_476D_1CE4_E5B9);
        z = (z ^ (z >> 27)).wrapping_mul(0x94D0_49BB_1331_11EB);
        z ^ (z >> 31)
    }
    /// Uniform in 0..n (n > 0).
    pub fn below(&mut self, n: u64) -> u64 { self.next() % n }
    pub fn range(&mut self, lo: u64, hi: u64) -> u64 { lo + self.below(hi - lo + 1) }
    pub fn chance(&mut self, num: u64, den: u64) -> bool { self.below(den) < num }
    pub fn pick<'a, T>(&mut self, xs: &'a [T]) -> &'a T { &xs[self.below(xs.len() as u64) as usize] }
    pub fn shuffle<T>(&mut self, xs: &mut [T]) {
        for i in (1..xs.len()).rev() {
            let j = self.below(i as u64 + 1) as usize;
            xs.swap(i, j);
        }
    }
    pub fn fork(&mut self) -> Rng { Rng(self.next()) }
}

//------------ Coq printers --------------------------------------------------

pub fn coq_list<T>(xs: impl IntoIterator<Item = T>, f: impl Fn(T) -> String) -> String {
    let mut s = String::from("[");
    let mut first = true;
    for x in xs {
        if !first { s.push_str("; "); }
        first = false;
        s.push_str(&f(x));
    }
    s.push(']');
    s
}
pub fn coq_nlist<T: std::fmt::Display>(xs: impl IntoIterator<Item = T>) -> String {
    coq_list(xs, |x| x.to_string())
}
pub fn coq_bool(b: bool) -> &'static str { if b { "true" } else { "false" } }
pub fn coq_opt(o: Option<String>) -> String {
    match o { Some(s) => format!("(Some {})", s), None => "None".into() }
}
pub fn coq_bytes(b: &[u8]) -> String { coq_nlist(b.iter()) }
/// Coq `string` literal (only for printable ASCII without '"').
pub fn coq_string(s: &str) -> String {
    let mut r = String::from("\"");
    for c in s.chars() { if c == '"' { r.push_str("\"\""); } else { r.push(c); } }
    r.push_str("\"%string");
    r
}

//------------ Driver --------------------------------------------------------

pub struct CaseOut {
    /// Observation of the implementation (canonicalised, human readable).
    pub obs: Value,
    /// Coq term of the case type of the family's Check.v (input + observation).
    pub coq: String,
    /// Does the case reach a non-default branch (family-specific rule)?
    pub nontrivial: bool,
}

pub struct Args {
    pub mode: String,
    pub seed: u64,
    pub tier: String,
    pub out: String,
    pub case: Option<String>,
}

pub fn parse_args() -> Args {
    let a: Vec<String> = std::env::args().collect();
    let mut r = Args { mode: a.get(1).cloned().unwrap_or_default(), seed: 1, tier: "quick".into(), out: ".".into(), case: None };
    let mut i = 2;
    while i < a.len() {
        match a[i].as_str() {
            "--seed" => { r.seed = a[i + 1].parse().expect("seed"); i += 2 }
            "--tier" => { r.tier = a[i + 1].clone(); i += 2 }
            "--out" => { r.out = a[i + 1].clone(); i += 2 }
            "--case" => { r.case = Some(a[i + 1].clone()); i += 2 }
            x => panic!("unknown argument {}", x),
        }
    }
    r
}

/// Runs a family: `gen` produces (class, input) pairs, `run` executes the
/// implementation on one input.
pub fn drive(
    gen: impl Fn(&mut Rng, &str) -> Vec<(String, Value)>,
    run: impl Fn(&Value) -> CaseOut,
) {
    let args = parse_args();
    std::fs::create_dir_all(&args.out).unwrap();
    install_panic_recorder();
    let inputs: Vec<(String, Value)> = match args.mode.as_str() {
        "gen" => {
            // a generator that consults the implementation (to build inputs around its behaviour) can panic in it
            let mut rng = Rng::new(args.seed);
            match std::panic::catch_unwind(std::panic::AssertUnwindSafe(|| gen(&mut rng, &args.tier))) {
                Ok(v) => v,
                Err(_) => {
                    let (msg, at) = FIRST_PANIC.lock().unwrap_or_else(|e| e.into_inner()).take().unwrap_or_default();
                    let out = CaseOut { obs: json!({"panic": msg, "at": at, "where": "generator"}), coq: "PANIC".into(), nontrivial: false };
                    drive_finish(&args, vec![("generator.panic".into(), Value::Null)], |_| vec![out]);
                    return
                }
            }
        }
        "replay" => {
            let txt = std::fs::read_to_string(args.case.as_ref().expect("--case")).unwrap();
            let v: Value = serde_json::from_str(&txt).unwrap();
            // a replay file holds either one case or a list of cases under "cases"
            match v.get("cases") {
                Some(Value::Array(cs)) => cs.iter().map(|c| (
                    c["class"].as_str().unwrap_or("replay").to_string(), c["input"].clone()
                )).collect(),
                _ => vec![(v["class"].as_str().unwrap_or("replay").to_string(), v["input"].clone())],
            }
        }
        m => panic!("mode must be gen or replay, got {:?}", m),
    };
    install_panic_recorder();
    drive_finish(&args, inputs, |inputs| inputs.iter().map(|(_, i)| guarded(&run, i, false)).collect());
}

//------------ panic net -----------------------------------------------------
//
// A panic that escapes `run` (most binaries catch the ones they expect themselves) is recorded as a case
// of its own: Coq term `PANIC`, observation {"panic": message, "at": location}.  lib/rvcheck.py turns it
// into a violation when the location is in the implementation (or a library it calls) and into a failure
// of the machinery when it is in the harness's own source.

thread_local! { static LAST_PANIC: std::cell::RefCell<Option<(String, String)>> = std::cell::RefCell::new(None); }
/// The first panic on any thread since the last reset (a panic of a helper thread comes before the panic of
/// the `join().unwrap()` that reports it; sequential driver only).
static FIRST_PANIC: std::sync::Mutex<Option<(String, String)>> = std::sync::Mutex::new(None);

pub fn install_panic_recorder() {
    std::panic::set_hook(Box::new(|info| {
        let msg = if let Some(s) = info.payload().downcast_ref::<&str>() { s.to_string() }
                  else if let Some(s) = info.payload().downcast_ref::<String>() { s.clone() }
                  else { "<non-string panic payload>".to_string() };
        let at = info.location().map(|l| format!("{}:{}:{}", l.file(), l.line(), l.column())).unwrap_or_default();
        LAST_PANIC.with(|p| *p.borrow_mut() = Some((msg.clone(), at.clone())));
        let mut g = FIRST_PANIC.lock().unwrap_or_else(|e| e.into_inner());
        if g.is_none() { *g = Some((msg, at)); }
    }));
}

pub fn guarded(run: &dyn Fn(&Value) -> CaseOut, input: &Value, parallel: bool) -> CaseOut {
    LAST_PANIC.with(|p| *p.borrow_mut() = None);
    if !parallel { *FIRST_PANIC.lock().unwrap_or_else(|e| e.into_inner()) = None; }
    match std::panic::catch_unwind(std::panic::AssertUnwindSafe(|| run(input))) {
        Ok(out) => out,
        Err(_) => {
            let first = if parallel { None } else { FIRST_PANIC.lock().unwrap_or_else(|e| e.into_inner()).take() };
            let (msg, at) = first.or_else(|| LAST_PANIC.with(|p| p.borrow_mut().take())).unwrap_or_default();
            CaseOut { obs: json!({"panic": msg, "at": at}), coq: "PANIC".into(), nontrivial: false }
        }
    }
}

/// Like `drive`, but runs the cases on `threads` threads (for families whose cases are independent
/// child processes or otherwise do not share process-global state).
pub fn drive_par(
    gen: impl Fn(&mut Rng, &str) -> Vec<(String, Value)>,
    run: impl Fn(&Value) -> CaseOut + Sync,
    threads: usize,
) {
    let args = parse_args();
    std::fs::create_dir_all(&args.out).unwrap();
    install_panic_recorder();
    let inputs: Vec<(String, Value)> = match args.mode.as_str() {
        "gen" => {
            // a generator that consults the implementation (to build inputs around its behaviour) can panic in it
            let mut rng = Rng::new(args.seed);
            match std::panic::catch_unwind(std::panic::AssertUnwindSafe(|| gen(&mut rng, &args.tier))) {
                Ok(v) => v,
                Err(_) => {
                    let (msg, at) = FIRST_PANIC.lock().unwrap_or_else(|e| e.into_inner()).take().unwrap_or_default();
                    let out = CaseOut { obs: json!({"panic": msg, "at": at, "where": "generator"}), coq: "PANIC".into(), nontrivial: false };
                    drive_finish(&args, vec![("generator.panic".into(), Value::Null)], |_| vec![out]);
                    return
                }
            }
        }
        "replay" => {
            let txt = std::fs::read_to_string(args.case.as_ref().expect("--case")).unwrap();
            let v: Value = serde_json::from_str(&txt).unwrap();
            match v.get("cases") {
                Some(Value::Array(cs)) => cs.iter().map(|c| (
                    c["class"].as_str().unwrap_or("replay").to_string(), c["input"].clone()
                )).collect(),
                _ => vec![(v["class"].as_str().unwrap_or("replay").to_string(), v["input"].clone())],
            }
        }
        m => panic!("mode must be gen or replay, got {:?}", m),
    };
    install_panic_recorder();
    drive_finish(&args, inputs, |inputs| {
        let n = inputs.len();
        let next = std::sync::atomic::AtomicUsize::new(0);
        let results: Vec<std::sync::Mutex<Option<CaseOut>>> = (0..n).map(|_| std::sync::Mutex::new(None)).collect();
        std::thread::scope(|s| {
            for _ in 0..threads.max(1) {
                s.spawn(|| loop {
                    let i = next.fetch_add(1, std::sync::atomic::Ordering::SeqCst);
                    if i >= n { break }
                    let out = guarded(&run, &inputs[i].1, true);
                    *results[i].lock().unwrap() = Some(out);
                });
            }
        });
        results.into_iter().map(|m| m.into_inner().unwrap().unwrap()).collect()
    });
}

fn drive_finish(args: &Args, inputs: Vec<(String, Value)>, exec: impl FnOnce(&Vec<(String, Value)>) -> Vec<CaseOut>) {
    let outs = exec(&inputs);
    let mut jl = std::io::BufWriter::new(std::fs::File::create(format!("{}/cases.jsonl", args.out)).unwrap());
    let mut cq = std::io::BufWriter::new(std::fs::File::create(format!("{}/cases.coq", args.out)).unwrap());
    let mut classes: BTreeMap<String, u64> = BTreeMap::new();
    let mut distinct = std::collections::HashSet::new();
    let mut nontrivial = 0u64;
    for ((class, input), out) in inputs.iter().zip(outs.into_iter()) {
        *classes.entry(class.clone()).or_default() += 1;
        if out.nontrivial && distinct.insert(out.coq.clone()) { nontrivial += 1; }
        writeln!(jl, "{}", json!({"class": class, "input": input, "impl": out.obs})).unwrap();
        writeln!(cq, "{}", out.coq.replace('\n', " ")).unwrap();
    }
    let stats = json!({
        "evaluations": inputs.len(),
        "distinct_nontrivial": nontrivial,
        "classes": classes,
        "seed": args.seed,
        "tier": args.tier,
    });
    std::fs::write(format!("{}/stats.json", args.out), serde_json::to_string_pretty(&stats).unwrap()).unwrap();
}

pub fn hex(b: &[u8]) -> String {
    let mut s = String::new();
    for x in b { write!(s, "{:02x}", x).unwrap(); }
    s
}
