pub fn placeholder() {}
