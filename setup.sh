#!/bin/sh
# Offline build of the verification framework: all Coq theories (full .vo build) and the Rust harness.
set -e
cd "$(dirname "$0")"
export CARGO_NET_OFFLINE=true
sh coq/gen_project.sh
timeout 3000 make -C coq -j16
cp /repo/Cargo.lock harness/Cargo.lock 2>/dev/null || true
(cd harness && timeout 3000 cargo build --offline --bins)
echo setup-ok
