#!/bin/sh
# Offline build of the verification framework: all Coq theories (full .vo build) and the Rust harness.
# Individual failures do not abort the setup: every check rebuilds exactly what it needs and reports itself.
cd "$(dirname "$0")"
export CARGO_NET_OFFLINE=true
sh coq/gen_project.sh
timeout 3000 make -C coq -k -j16 >/dev/null 2>&1 || echo "setup: some Coq files did not build (the checks that need them will say so)"
cp /repo/Cargo.lock harness/Cargo.lock 2>/dev/null || true
(cd harness && timeout 3000 cargo build --offline --bins 2>&1 | tail -3) || true
for b in harness/src/bin/*.rs; do
  n=$(basename "$b" .rs)
  [ -x "harness/target/debug/$n" ] || (cd harness && timeout 3000 cargo build --offline --bin "$n" 2>&1 | tail -3) || true
done
echo setup-ok
