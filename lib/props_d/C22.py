"""C22 check configuration."""
SPEC = {
    "module": "C22.Property",
    "targets": ["C22/Property.vo"],
    "theorems": ["C22_json_str_roundtrip", "C22_json_str_framing", "C22_json_str_no_control_byte",
                 "C22_json_str_no_raw_quote", "C22_json_str_no_lone_backslash",
                 "C22_jsonbuilder_document_parses", "C22_status_document_parses",
                 "C22_label_roundtrip", "C22_label_no_line_feed", "C22_label_no_raw_quote",
                 "C22_metrics_text_parses", "C22_model_satisfies_spec", "C22_docs_model_satisfies_spec",
                 "C22_unfixed_refuted", "C22_nonvacuous"],
    "streams": [
        {"name": "escape", "bin": "c22", "env": {"C22_STREAM": "escape"}, "check_module": "C22.Spec",
         "fn": "check_ecase", "casetype": "ecase",
         "model_expr": "model_eobs (e_in CASE)",
         "why": {"2": "C22.Spec.spec_escape_okb false (or the harness's serde_json / exposition reader disagreed): what "
                      "utils::json::json_str or the /metrics label writer produced for this string does not read back "
                      "as the string"}},
        {"name": "docs", "bin": "c22", "env": {"C22_STREAM": "docs"}, "check_module": "C22.Spec",
         "fn": "check_dcase", "casetype": "dcase",
         "model_expr": "(spec_docs_okb (d_exp CASE) (d_impl CASE), docs_in_model (d_impl CASE))",
         "why": {"2": "C22.Spec.spec_docs_okb false (or serde_json / the harness's exposition reader rejected): the "
                      "/api/v1/status document or the /metrics text rendered from this Metrics value does not parse, or "
                      "a TAL name / repository URI / log message does not read back"}},
    ],
    "level_text": "Theorems for EVERY byte string (hence every Rust string), no length bound: what json_str writes reads "
                  "back as the string (json_unescape (json_str s) = Some s), the reader stops exactly at the closing quote "
                  "whatever follows (framing), the output holds no byte < 0x20, no unescaped quote, no stray backslash; "
                  "the same three facts for Prometheus label values (round trip with framing, no raw line feed, no "
                  "unescaped quote). Document level, also unbounded: every JsonBuilder call tree whose raw members are "
                  "JSON scalars prints one JSON document that the Coq JSON reader parses back to that tree (arbitrary "
                  "keys/strings/nesting), and every text written through Target::{header,single,multi/label/value} with "
                  "well-formed metric/label names and numeric values parses back line by line (arbitrary label values). "
                  "The status and metrics handlers themselves are NOT transcribed line by line: that their output is "
                  "such a JsonBuilder tree / line list is checked per generated Metrics value (the implementation's bytes "
                  "must equal the modelled printer applied to what the Coq reader parsed, and the input strings must "
                  "read back at their places), plus serde_json and an independent exposition-format reader in the harness.",
    "level_note": "Models hand-written from src/utils/json.rs (json_str, JsonBuilder) and src/http/metrics.rs (Metric, "
                  "LabelValue) AFTER the fix for finding F7 (control characters unescaped in json_str; label values not "
                  "escaped at all); the pre-fix behaviour is proved to violate the oracle (C22_unfixed_refuted) and its "
                  "witnesses are the corpus. JSON reader = Base/Json.v (RFC 8259 grammar, \\uXXXX with surrogate pairs; "
                  "UTF-8 validity of string contents is not checked in Coq, Rust strings are UTF-8 by construction and "
                  "serde_json re-checks). Tie = json_str (public) and one labelled sample line (cfg hook) compared byte "
                  "for byte with the model inside Coq; /api/v1/status and /metrics rendered by the real handlers (cfg "
                  "hooks) from Metrics values built through the public API. Trusted: Coq kernel, harness, the exposition "
                  "grammar as transcribed in C22/Spec.v.",
    "rule": "escape stream: all 128 ASCII characters singly, all 1600 ordered pairs from a 40-character class set (+144 "
            "embedded pairs of specials), 51 blocks of 64 consecutive code points (fixed boundaries + random), boundary "
            "strings of the proofs' case splits, 600 random nasty strings, 200 lossy-decoded random byte strings; every "
            "code point >= 0x80 is additionally pre-scanned natively (serde_json + exposition reader) and a failing one "
            "becomes an explicit case. docs stream: every special character alone as TAL name / repository URI / log "
            "message (36), boundary (empty metrics, empty and duplicate names, all options None, RTR clients), 40 random "
            "Metrics values with nasty names, URIs and log books (rsync, RRDP, publication points); 16 of the documents "
            "go into Coq complete, for the rest the static # HELP/# TYPE lines of /metrics are dropped before the Coq "
            "evaluation (the harness reader has read the complete text). distinct = distinct Coq case term; "
            "non-trivial = some string of the case needs escaping.",
    "assumptions": ["Rust str/String values are valid UTF-8 (the byte-level model treats bytes >= 0x80 as opaque)",
                    "fmt::Display of the values passed to member_raw / Target::single / value() writes JSON-number-like "
                    "text (integers, {:.3} decimals, null/true/false, NaN) - checked per case, not proved",
                    "uri::Rsync / uri::Https admit no quote, backslash or control byte (rpki crate check_uri_ascii); "
                    "TAL names, RepositoryMetrics::uri and log messages are arbitrary strings and are generated as such"],
}
