"""C19 check configuration."""
SPEC = {
    "module": "C19.Property",
    "targets": ["C19/Property.vo"],
    "theorems": ["C19_never_asleep", "C19_invariant", "C19_eventually_all", "C19_later_arrival_served",
                 "C19_finish_delivers", "C19_model_satisfies_spec", "C19_original_refuted",
                 "C19_original_refuted_accept_error", "C19_nonvacuous"],
    "streams": [{
        "name": "listener", "bin": "c19", "check_module": "C19.Spec",
        "model_expr": "model_obs (c_script CASE)",
        "why": {"2": "C19.Spec.spec_okb false: RtrListener::poll_next answered Pending while the task was neither woken nor "
                     "had its waker registered with the socket or the back-off timer (it sleeps for ever), or a "
                     "connection whose setup succeeds was not handed out by a fair executor"},
    }],
    "level_text": "Partial (tokio and the kernel are modelled, not verified). Theorems over all sequences of client "
                  "arrivals (any subset failing per-connection setup), accept errors, timer expiries and polls, no "
                  "length bound: in every reachable state the listener task is woken or has its waker registered "
                  "(socket or back-off timer), i.e. a Pending answer never leaves it asleep without a wake-up source; "
                  "a fair executor hands out exactly the connections whose setup succeeds, in arrival order, "
                  "whatever failed before. The unfixed code is refuted in the same model (C19_original_refuted*).",
    "level_note": "Model hand-written from src/rtr.rs RtrListener::poll_next (fixed code, see notes/C19-fix.patch). Tie = "
                  "the real RtrListener over a real loopback socket in a tokio runtime, polled by hand with a waker "
                  "whose wake-ups and live clones are counted (no timeout is used as an oracle); per-poll answers, "
                  "wake/registration state and the connections handed out are compared with the model inside Coq. "
                  "Setup failures: forced hook in RtrStream::new and the real set_keepalive with values the kernel "
                  "rejects; accept errors: real EMFILE (RLIMIT_NOFILE lowered during the poll).",
    "rule": "cases: corpus (the F5 witnesses), every script over {good arrival, failing arrival, poll} up to length 5, "
            "accept-error/back-off boundary scripts, keepalive values the kernel accepts/rejects (1, 60, 32767 / 32768, "
            "40000, 4e9, 1e10 s), random scripts of 6..16 events; distinct = distinct Coq case term; non-trivial = "
            "some arrival fails setup or an accept error is injected",
    "assumptions": ["tokio: poll_accept registers the waker exactly when it answers Pending, a registered waker is woken "
                    "by the next arrival; Sleep registers the waker until its deadline (model of tokio/kernel in "
                    "C19/Model.v, trusted)",
                    "the executor polls a task again once its waker has been woken (fair executor)",
                    "Linux rejects TCP_KEEPIDLE/TCP_KEEPINTVL above 32767 s (harness constant KEEPALIVE_MAX)"],
}
