"""C36 check configuration."""
SPEC = {
    "module": "C36.Property",
    "targets": ["C36/Property.vo", "C36/Stress.vo"],
    "theorems": ["C36_invariant", "C36_sorted", "C36_no_duplicate_address", "C36_entries_distinct",
                 "C36_returned_present", "C36_returned_present_once", "C36_same_entry", "C36_counts_exact",
                 "C36_counts_zero", "C36_mutual_exclusion", "C36_model_satisfies_spec", "C36_nonvacuous"],
    "streams": [{
        "name": "schedules", "bin": "c36", "check_module": "C36.Spec",
        "model_expr": "model_obs (c_todos CASE) (c_sched CASE)",
        "why": {"2": "C36.Spec.spec_okb false on the real registry after this schedule: client list not strictly "
                     "sorted / an entry twice / an (address, entry) returned by get_client missing from the list / "
                     "open-connection counts not back to zero after every connection was closed"},
    }, {
        "name": "stress", "bin": "c36", "check_module": "C36.Stress", "fn": "check_scase", "casetype": "scase",
        "env": {"C36_STREAM": "stress"},
        "why": {"2": "C36.Stress.check_scase: after 2..16 real threads opened and closed thousands of connections at the "
                     "same time the per-client list is not strictly sorted / has not one entry per address / an "
                     "open-connection count is not back at zero (oracle-only stream, no model)"},
    }],
    "level_text": "Partial (the proof is about the model; that ArcSwap, the mutex and the Relaxed atomics make the "
                  "modelled steps atomic is assumed). Theorems for any number of threads, any per-thread sequence of "
                  "connections and any schedule (invariant rule of Base/Sched.v, induction on the schedule): the "
                  "per-address list stays strictly sorted, entries are distinct, every (address, entry) a get has "
                  "returned is in the list exactly once, two gets for one address return the same entry, each "
                  "counter equals the number of connections open on the entry, and all are 0 once every connection "
                  "has closed; at most one thread is between lock and unlock. A second, oracle-only stream (`stress`, no model, no theorem) lets real threads open and close connections at once and checks the end state, because the atomicity of a single registry step is an assumption of the schedules stream.",
    "level_note": "Model hand-written from src/metrics.rs RtrPerAddrMetrics::get and src/rtr.rs RtrStream::new / Drop. "
                  "Tie = schedule-controlled replay: real threads running the real RtrStream::new/drop are stopped "
                  "at cfg(routinator_verif) points after every modelled atomic step and released one at a time "
                  "following the schedule; after every step the thread's position and the real mutex state, at the "
                  "end the real client list, counts and returned entries (Arc identity up to renaming) are "
                  "compared with the model run on the same schedule inside Coq.",
    "rule": "cases: all interleavings (up to stutters) of two threads through get() for same/different/existing "
            "addresses and through whole connections (get, open, close) on the same new address and on an existing "
            "one; random bursty schedules for 2-4 threads with 1-3 connections each over 1-4 addresses (IPv4 and "
            "IPv6), classed by the proof's branches they reach (blocked on the mutex, found on re-check, stale "
            "first load); distinct = distinct Coq case term; non-trivial = at least two threads have a connection",
    "assumptions": ["ArcSwap::load/store, Mutex lock/unlock and the Relaxed fetch_add/fetch_sub are atomic steps and "
                    "a load sees the latest store (sequentially consistent interleaving semantics; weaker memory "
                    "behaviour is not modelled)",
                    "binary_search_by on a strictly sorted slice returns the position of the match or the insertion "
                    "point (modelled as a scan)"],
}
