"""C25 check configuration."""
SPEC = {
    "module": "C25.Property",
    "targets": ["C25/Property.vo"],
    "theorems": ["C25_updated_is_exact", "C25_result_is_load_result", "C25_reachable_copy_is_truth",
                 "C25_failed_notification", "C25_followed_deltas_consecutive", "C25_model_satisfies_spec",
                 "C25_injective_hash_gives_genuine", "C25_unfixed_refuted", "C25_gap_applied",
                 "C25_nocopy_run_fails", "C25_taint_diverges", "C25_nonvacuous",
                 "C25_rewritten_history_refetched", "C25_rewritten_model_satisfies_spec", "C25_rewritten_nonvacuous"],
    "streams": [{
        "name": "updates", "bin": "c25", "check_module": "C25.Spec",
        "model_expr": "model_obs (c_cfg CASE) (c_steps CASE)",
        "why": {"2": "C25.Spec.spec_okb false: in a sequence of validation runs against the fetch server, a run of the "
                     "real RRDP collector was reported as Updated although the archive read back afterwards is not "
                     "the server's snapshot at the notified session and serial (or the run's reader hands out "
                     "something else), or the run failed as a whole (RunFailed) because of what the server sent"},
    }],
    "level_text": "Theorems by induction over the list of validation runs and over the delta list (no bound on "
                  "histories, serials, delta lists, objects): for every server history and every sequence of served "
                  "answers (HTTP errors, 304, unusable XML, any session/serial, truncated / gapped / duplicated / "
                  "reordered / mutated delta lists, files with wrong hashes, broken or foreign documents), under the "
                  "premise that only files whose hash equals the announced one are the server's, a run reported as "
                  "Updated leaves the local copy exactly equal to the server's snapshot at the notified serial, every "
                  "other run reports unavailable / stale / current, no run fails as a whole, and every reachable "
                  "local copy (also after failed runs) is the server's content at its stored serial. The code as found "
                  "is proved to violate this in three ways (C25_unfixed_refuted; gapped delta list applied, 304 without "
                  "a copy fails the run, a partially applied delta survives a failed snapshot); it was corrected "
                  "(notes/C25-fix.patch) and the corrected code is what is modelled, proved and checked. "
                  "A server that rewrites its history (re-issues a serial with other content) is covered with one world "
                  "per run: from ANY local copy, a notification listing a remembered delta serial with another hash, or "
                  "another session, makes the run fetch the snapshot, and an Updated run is exactly that run's world's "
                  "snapshot (C25_rewritten_history_refetched; per-run oracle proved of the model in "
                  "C25_rewritten_model_satisfies_spec); an invisible rewriting is outside the premise.",
    "level_note": "Model hand-written from src/collector/rrdp/base.rs (try_update, update, not_modified, "
                  "snapshot_update, delta_update, calc_deltas), src/collector/rrdp/update.rs (Notification, "
                  "check_deltas, to_repository_state, SnapshotUpdate, DeltaUpdate, HashRead) and rpki 0.19.3 "
                  "NotificationFile (list limit, stable sort); the archive is a map URI -> content plus the state "
                  "record. SHA-256 is not modelled: digests are abstract, the premise `genuine` is an executable "
                  "predicate on the input and is derived from an injective hash in C25.HashIntegrity. Tie: the real "
                  "rrdp::Collector (reqwest client, XML parsing, archive files) is run through one fresh "
                  "Run::load_repository per step (exposure hook Config::verif_rrdp_updater) against a harness-side "
                  "HTTPS server with a fixture CA (harness/src/rrdpsrv.rs), one fresh cache directory per case; "
                  "compared per run: LoadResult, snapshot reason, the requests received by the server in order, and "
                  "the archive read back through the public RrdpArchive API (session, serial, stored delta hashes, "
                  "all objects) plus what the run's ReadRepository hands out. Trusted: Coq kernel, harness, fetch "
                  "server. Not covered: archive storage failures (I/O errors, corruption -> SnapshotReason::"
                  "CorruptArchive), time-outs and redirects, object size limit (C38), Last-Modified / ETag "
                  "conditional headers (a 304 is served unconditionally), concurrency of several repositories (C37), "
                  "crashes during an update (C24), that a copy which is not Updated is not used (shape of "
                  "collector/base.rs Run::repository, C29).",
    "rule": "corpus: the three witnesses of the corrected defects; honest servers: walks v1<=v2<=v3<=last through 7 "
            "(thorough 17) histories of up to 5 versions over 3 URIs x 2 contents (incl. empty deltas, publish/"
            "withdraw and a->b->a cycles, serials 0 and 2^64-1) with 1, 2 or 5 deltas listed; every single fault "
            "(about 140 per step: notification request, session/serial, every delta-list entry dropped / duplicated "
            "/ re-hashed / re-pointed / renumbered, list reversed / rotated / empty / oversized / over the count "
            "limit, snapshot entry, every file: status, foreign session/serial, wrong document type, broken after k "
            "elements, element dropped / repeated / changed / added) at every step of a 5-step and a 3-step walk "
            "from the local state reached so far, then the walk continues (quick: full list on one history, every "
            "8th fault on the others); every delta-file or delta-list fault combined with a failing snapshot, then "
            "the honest server; 300/6000 random two-session walks (forward, stay, back, session change) with 0-3 "
            "faults per run and random limits / expiring copies; malformed: deltas re-issued with a matching hash "
            "(outside the premise, correspondence only); distinct = distinct Coq case term; non-trivial = some run "
            "was Updated through deltas",
    "assumptions": ["hash integrity (premise `genuine`, visible in every theorem): a complete snapshot / delta "
                    "document for the notified session and serial whose SHA-256 equals the hash announced for it is "
                    "the server's; follows from injectivity of the hash on the documents considered "
                    "(C25_injective_hash_gives_genuine)",
                    "archive storage operations do not fail (no I/O error, no corruption of the archive file)",
                    "per-object hashes (delta element hash vs archive meta data) compare as the object contents do",
                    "the copy's best-before time is either passed at the start of every run or of none (config "
                    "flag of the case); Stale vs Current does not influence what is stored"],
}
