"""C25 check configuration."""
SPEC = {
    "module": "C25.Property",
    "targets": ["C25/Property.vo"],
    "theorems": ["C25_updated_is_exact", "C25_result_is_load_result", "C25_reachable_copy_is_truth",
                 "C25_failed_notification", "C25_followed_deltas_consecutive", "C25_model_satisfies_spec",
                 "C25_injective_hash_gives_genuine", "C25_unfixed_refuted", "C25_gap_applied",
                 "C25_nocopy_run_fails", "C25_taint_diverges", "C25_nonvacuous"],
    "streams": [{
        "name": "updates", "bin": "c25", "check_module": "C25.Spec",
        "model_expr": "model_obs (c_cfg CASE) (c_steps CASE)",
        "why": {"2": "C25.Spec.spec_okb false: in a sequence of validation runs against the fetch server, a run of the "
                     "real RRDP collector was reported as Updated although the archive read back afterwards is not "
                     "the server's snapshot at the notified session and serial (or the run's reader hands out "
                     "something else), or the run failed as a whole (RunFailed) because of what the server sent"},
    }],
    "level_text": "PLACEHOLDER",
    "level_note": "PLACEHOLDER",
    "rule": "PLACEHOLDER",
    "assumptions": [],
}
