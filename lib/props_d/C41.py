"""C41 check configuration."""
_WHY = {"2": "C41.Spec.spec_okb false: an item is in the payload of exactly one of the two runs (same world, faults "
             "confined to repository r in one of them) although it is published by a CA that is neither in r nor below "
             "a CA in r nor under a TAL whose certificate is fetched from r, and (policy reject) does not overlap the "
             "resources of such a CA - or a run failed as a whole"}
_EXPR = "(agree CASE, model_obs CASE, spec_okb CASE (c_obs_base CASE) (c_obs_fault CASE))"
SPEC = {
    "module": "C41.Property",
    "targets": ["C41/Property.vo"],
    "theorems": ["C41_traversal_isolation", "C41_payload_isolation", "C41_model_satisfies_spec", "C41_nonvacuous"],
    "streams": [
        {"name": "repo", "bin": "c41", "check_module": "C41.Spec", "model_expr": _EXPR, "why": _WHY},
        {"name": "cmd", "bin": "c41", "env": {"C41_STREAM": "cmd", "RPKIGEN_RSYNC": "self"}, "check_module": "C41.Spec",
         "model_expr": _EXPR, "why": _WHY},
    ],
    "level_text": "Non-interference theorem over all worlds (any graph of CAs incl. cycles and shared sub-trees, any "
                  "assignment of CAs and TAL certificate URIs to repositories, any max-ca-depth, no size bound): if two "
                  "runs see the same data for every publication point not published in repository r and for every TAL "
                  "without a certificate URI in r - whatever r itself shows - then the sequence of commit/cancel events "
                  "at positions that are not in r, not below a CA in r and not under such a TAL is identical; hence an "
                  "item published at such a position is in one run's payload iff it is in the other's, except, under "
                  "unsafe-vrps=reject, VRPs overlapping a (non-/0) resource of a CA rejected at an affected position. "
                  "The executable oracle is proved to hold of the model whenever the two runs agree outside r and is "
                  "evaluated on the payloads of two real engine runs per generated case.",
    "level_note": "The model is a self-contained slice of the engine (src/engine.rs process_tal_task, process_ca_task, "
                  "PubPoint::process with its collected/stored/reject decision, check_loop, depth limit, commit/cancel; "
                  "src/payload/validation.rs rejected resources and the reject filter of into_snapshot; "
                  "src/collector/base.rs: the rsync path never fails a run); the verdicts of the rpki crate and of the "
                  "file/hash checks per publication point are inputs. The theorem is about the model: it shows that the "
                  "engine's structure (per-point processing reads only that point's repository copy and store entry) "
                  "gives isolation; that the real code has this structure is what the tie tests. Tie = end-to-end on "
                  "real signed repositories (rpkigen, rsync transport): twin worlds differing only inside r, payloads "
                  "compared item by item with the model's prediction for BOTH runs and with the oracle. The views given "
                  "to the model are derived from the generator's ground truth (and, in history mode, from the observed "
                  "cache after the first run) by the harness - trusted. Not covered: RRDP transport (the 304-without-"
                  "local-copy suspicion F16 belongs to C25), key-reuse graphs in the tie (trees only), more than one "
                  "broken repository at a time.",
    "rule": "world: 2 TALs (the second one's certificate lives in a repository other than its CA's), 7-8 CAs over 3-4 "
            "rsync modules on 2-3 hosts with parents and children in different repositories, ROAs of parents covering "
            "their children's space; each repository in turn broken by: unreachable (exit 10), module empty, every "
            "object garbage, every file missing, every manifest fault at every CA, every TA-certificate fault, a sixth "
            "of all CRL / object faults, 40 (quick) random fault sets with pre-existing faults outside r; stream cmd "
            "(real rsync processes): rsync exit 12 / 255, killed by a signal, partial copy + exit 23, hang until the 1 s "
            "timeout; policies accept/warn/reject; fresh cache and history (fault-free first run, then a new broken "
            "version); 1 and 4 validation threads. distinct = distinct Coq case term; non-trivial = the two payloads "
            "differ and the faulty one is not empty",
    "assumptions": ["the views of publication points outside r are the same in both runs (checked per case by `agree`; "
                    "the harness derives them from the generator's ground truth, which does not depend on r's faults)",
                    "every payload item of a generated world is published by exactly one CA (asserted by the harness), "
                    "so that an item of the snapshot can be attributed to its CA"],
}
