"""C28 check configuration."""
SPEC = {
    "module": "C28.Property",
    "targets": ["C28/Property.vo", "C28/BigSpec.vo"],
    "theorems": [
        "C28_roundtrip_u8", "C28_roundtrip_u32", "C28_roundtrip_u64", "C28_roundtrip_i64", "C28_roundtrip_opt_i64",
        "C28_roundtrip_rsync", "C28_roundtrip_https", "C28_roundtrip_opt_https", "C28_roundtrip_bytes",
        "C28_roundtrip_opt_bytes", "C28_roundtrip_uuid", "C28_roundtrip_hash", "C28_roundtrip_serial",
        "C28_roundtrip_time", "C28_roundtrip_opt_time", "C28_roundtrip_map", "C28_roundtrip_update_status",
        "C28_roundtrip_header", "C28_roundtrip_manifest", "C28_roundtrip_object", "C28_roundtrip_stored_status",
        "C28_roundtrip_state", "C28_roundtrip_value", "C28_https_nonempty", "C28_model_satisfies_spec",
        "C28_nonvacuous"],
    "streams": [{
        "name": "roundtrip", "bin": "c28", "check_module": "C28.Spec",
        "model_expr": "model_obs (c_val CASE) (c_rest CASE)",
        "why": {"2": "C28.Spec.spec_okb false: the value the real decoder returned on the bytes the real encoder "
                     "wrote (followed by `rest`) is not equal to the value written, or the decoder did not leave "
                     "exactly `rest` (or the value was not encoded / not decoded at all)"},
    }, {
        "name": "big", "bin": "c28", "check_module": "C28.BigSpec", "fn": "check_bcase", "casetype": "bcase",
        "env": {"C28_STREAM": "big"},
        "why": {"2": "C28.BigSpec.check_bcase: a delta map / repository state with 65535 .. 131073 entries (beyond the "
                     "decoder's pre-allocation limit) did not read back equal, with all entries, leaving exactly the bytes "
                     "appended behind it (digest judged in Coq, comparison made by the harness: oracle-only stream)"},
    }],
    "level_text": "Theorems over all well-formed values of every persisted record type and all trailing byte "
                  "strings (no size bound; hash maps in any iteration order of distinct keys; URI validity an "
                  "arbitrary predicate that rejects the empty string for https): decode (encode v ++ rest) = "
                  "Ok (v, rest) for the 16 Compose/Parse pairs of utils/binio.rs, StoredPointHeader, UpdateStatus, "
                  "StoredManifest, StoredObject, StoredStatus and RepositoryState; the executable round-trip oracle "
                  "is proved of the model on every well-formed input and evaluated on the implementation's output "
                  "for every generated case. Records too large to be written out as Coq case terms (delta maps of 65535 .. 131073 entries, 2.6 - 5 MB) go through an oracle-only stream `big`: the implementation makes the round trip, the harness compares, Coq judges the digest.",
    "level_note": "Model hand-written from src/utils/binio.rs (working tree, incl. the C27 fix read_vec), "
                  "src/store.rs and src/collector/rrdp/archive.rs; tie = the real encoders and decoders run on "
                  "generated values, compared inside Coq: implementation bytes = model bytes (byte for byte), model "
                  "decoder on the implementation's bytes = implementation's decoded value and remaining input. "
                  "Values with a sub-second time are represented by their whole-second part (DESIGN.md section 8): "
                  "the oracle then says 'reads back truncated to the second'. Trusted: Coq kernel, harness, the "
                  "cfg(routinator_verif) hooks that expose UpdateStatus and RepositoryState.",
    "rule": "cases: all u8 values, all option/variant combinations of header, object and state; boundary values of "
            "every width, sign and marker (u64::MAX, i64::MIN, 0-length https), chrono's time range ends, byte "
            "strings and URIs of 0..257 bytes and around the 64 KiB read chunk (65536, 65537, 131073; more sizes in "
            "the thorough tier), maps of 0, 1, 4, 17, 100 (thorough: 300) entries with extreme keys; 60 (quick) / 400 (thorough) structured random values per record type "
            "with random trailing bytes; values with sub-second times; distinct = distinct Coq case term; "
            "non-trivial = any kind but u8",
    "assumptions": ["64-bit target (usize = u64)",
                    "rpki::uri::{Rsync,Https}::from_bytes accept exactly the byte strings of the transcribed "
                    "predicates rsync_validb/https_validb (only used by the correspondence; checked on every case)",
                    "chrono accepts exactly -262143-01-01T00:00:00Z..=+262142-12-31T23:59:59Z as whole-second "
                    "timestamps (checked at both ends by the correspondence)"],
}
