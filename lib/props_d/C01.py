"""C01 check configuration."""
_LEVEL_NOTE = (
    "Model hand-written from src/engine.rs (process_tal_task, load_ta, PubPoint::process, process_collected, "
    "validate_collected_manifest/_crl, check_collected_is_newer, process_stored, validate_stored_manifest, "
    "process_object and the per-type functions, check_crl, CaCert::chain/check_loop), src/payload/validation.rs "
    "(processor filters, commit/cancel, unsafe-VRP filter) and the store operations used (coq/Engine/Model.v, the "
    "fixed code incl. the restart() call of fix F1). Tie: harness/src/bin/c01.rs builds real RPKI repositories with "
    "harness/src/rpkigen (rpki crate builders, ring RSA signatures, fixture keys), runs the real Engine through "
    "ValidationReport::process / into_snapshot on the rsync transport (in-process stand-in via the add-only hook "
    "verif_rpkigen in src/collector/rsync.rs), and Coq compares the payload set and the stored manifests of every "
    "run with the model evaluated on the generator's ground truth only. Partial: the verdicts of the rpki crate are "
    "inputs (verdict bits; the generator cross-checks the decode bit against rpki's decoders and the tie samples "
    "the others); a publication point is assumed to be visited at most once per run; runs with unreachable "
    "repositories, RRDP, SLURM, metrics and the thread pool are outside the model (validation-threads 1 and 4 are "
    "both run). Trusted: Coq kernel, harness, generator ground truth.")
SPEC = {
    "module": "C01.Property",
    "targets": ["C01/Property.vo"],
    "theorems": ["C01_sound", "C01_only_good_objects", "C01_chain_links_good", "C01_ta_binding", "C01_store_wf",
                 "C01_total", "C01_oracle_is_property", "C01_model_satisfies_spec", "C01_nonvacuous"],
    "streams": [{
        "name": "engine", "bin": "c01", "check_module": "C01.Spec",
        "model_expr": "map (fun ri => option_map sr_model (step (k_cfg CASE) (k_pkeys CASE) ri [] [])) (k_runs CASE)",
        "why": {"2": "C01.Spec.oracle_c01 false: the engine served an item that no object validating along an unbroken "
                     "chain to a TAL-matching trust anchor carries (bad signature, overclaim, revocation, expiry, "
                     "wrong CRL, hash mismatch, wrong TA key, invalid manifest/CRL or pruned CA contributed payload)"},
    }],
    "level_text": "Theorems by induction over the recursion of the engine model, for every graph of publication points "
                  "(cyclic or not), every store content, every configuration and every manifest walk order, no size "
                  "bound: every item of the model's payload is carried by an object whose verdict bits are all good "
                  "and whose serial is not on the CRL, listed with matching hash on a fetched or stored manifest "
                  "version that passes every manifest/CRL check, under a chain of good, unrevoked, non-looping, "
                  "depth-bounded CA certificates up to a certificate with the TAL's key that validates as trust "
                  "anchor; the executable oracle evaluated on the implementation's payload is proved equivalent to "
                  "that statement. The verdicts of the rpki crate are inputs (partial).",
    "level_note": _LEVEL_NOTE,
    "rule": "cases: fault-free trees for 1-3 TALs x depth 0-4; every applicable fault at every position (TA "
            "certificate, manifest, CRL, every object) of two base trees; random pairs of faults; all stale x "
            "unsafe-vrps policies x bgpsec/aspa/strict on a tree with stale manifest/CRL and a rejected CA; chains "
            "around max-ca-depth 0,1,2,3,5, a cycle and key reuse; histories of 2-3 runs on one cache (new object, "
            "incomplete update, broken manifest/CRL in version 2, number/thisUpdate not advancing, withdrawn object, "
            "repaired fault); random trees with 0-3 faults; distinct = distinct Coq case term; non-trivial = some run "
            "served a non-empty payload",
    "assumptions": ["verdict bits of the rpki crate (decodes, signature valid, resources within, valid now, CRL URI, "
                    "serial) are inputs of the model", "the manifest walk order is a rearrangement of the listed entries "
                    "(perm_ok)", "each publication point is visited at most once per run", "one ASPA object per customer AS"],
}
