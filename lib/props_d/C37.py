"""C37 check configuration."""
SPEC = {
    "module": "C37.Property",
    "targets": ["C37/Property.vo", "C37/Stress.vo"],
    "theorems": ["C37_invariant", "C37_fetch_at_most_once", "C37_starts_counts", "C37_no_return_before_fetch_end",
                 "C37_one_updater", "C37_updated_after_fetch", "C37_model_satisfies_spec", "C37_oracle_means_once",
                 "C37_old_order_refuted", "C37_old_order_oracle_false", "C37_nonvacuous"],
    "streams": [{
        "name": "schedules", "bin": "c37", "check_module": "C37.Spec",
        "model_expr": "model_obs (c_rrdp CASE) (c_dubs CASE) (c_todos CASE) (c_sched CASE)",
        "why": {"2": "C37.Spec.spec_okb false on the real collector run after this schedule: a module / repository "
                     "had two fetches started (the rsync command ran twice / RepositoryUpdate::try_update was "
                     "entered twice, as logged at the call and as seen by the fake rsync / the proxy), or a thread "
                     "returned from load_module / load_repository for a key before a fetch of that key had ended"},
    }, {
        "name": "stress", "bin": "c37", "check_module": "C37.Stress", "fn": "check_scase", "casetype": "scase",
        "env": {"C37_STREAM": "stress"},
        "why": {"2": "C37.Stress.check_scase: several real threads asked one collector run for the same fresh rsync module "
                     "/ RRDP repository at the same moment and a key had two fetches started or two metrics entries "
                     "(oracle-only stream, no model)"},
    }],
    "level_text": "Partial (the proof is about the model; that std's Mutex and RwLock make the modelled steps atomic "
                  "is assumed). Theorems for any number of threads, any per-thread sequence of load_module / "
                  "load_repository calls over any keys, any set of dubious keys and any schedule (invariant rule of "
                  "Base/Sched.v, induction on the schedule), for the order of statements of the rsync code after "
                  "the fix and of the RRDP code: no key has two fetches started; whenever a thread returns from "
                  "load_* for a key a fetch of that key has ended before (dubious keys: nothing is fetched); per "
                  "key at most one thread is between the second look into `updated` and the insert; a key is in "
                  "`updated` only after its fetch ended. The old rsync order (running.remove before "
                  "updated.insert) is refuted by a 2-thread schedule (C37_old_order_refuted). A second, oracle-only stream (`stress`, no model, no theorem) lets real threads ask for the same fresh key at the same moment and counts the fetches per key, because what lies between two rendezvous points is one atomic step of the schedules stream.",
    "level_note": "Model hand-written from src/collector/rsync.rs Run::load_module and src/collector/rrdp/base.rs "
                  "Run::load_repository. Tie = schedule-controlled replay: real threads calling the real load_* on "
                  "a bare collector run are stopped at cfg(routinator_verif) points after every modelled atomic "
                  "step and released one at a time following the schedule (a thread about to lock is released "
                  "only if the real mutex it took is free); after every step the thread's position, the identity "
                  "of its mutex (Arc pointer up to renaming) and whether that mutex is locked, at the end the "
                  "event log (fetch started / ended at the real call of the rsync command resp. "
                  "RepositoryUpdate::try_update, returns), `updated` and `running` are compared with the model "
                  "run on the same schedule inside Coq. The fetch is real and fails fast (rsync: a script that "
                  "records its source argument; RRDP: a proxy that records CONNECT and answers 403) and what "
                  "the script / proxy saw is cross-checked with the log.",
    "rule": "cases: all interleavings (up to stutters) of two threads loading the same key (normal and dubious), "
            "sampled interleavings of two threads on different keys, of three threads on one key with one of them "
            "already fetching, and of a thread calling twice; random bursty schedules for 2-4 threads with 1-3 "
            "calls each over 1-3 keys (some dubious), half rsync half RRDP, classed by the proof's branches they "
            "reach (blocked on the mutex, found on the second look, fresh mutex after the update, insert waiting "
            "for a reader); distinct = distinct Coq case term; non-trivial = at least two threads have a call",
    "assumptions": ["std::sync::Mutex::lock / guard drop and RwLock read/write sections are atomic steps of a "
                    "sequentially consistent interleaving; a lock attempt that cannot succeed is a stutter until it "
                    "can (no weaker memory behaviour, no writer-preference effects modelled)",
                    "dropping the `updated` read guard and the per-key mutex guard at function exit is one step",
                    "load_repository does not end with RunFailed (a fatal local I/O error ends the run)"],
}
