"""C11 check configuration."""
SPEC = {
    "module": "C11.Property",
    "targets": ["C11/Property.vo"],
    "theorems": ["C11_empty_iff_equal", "C11_apply", "C11_exact_std", "C11_exact_aspa", "C11_sorted_std",
                 "C11_sorted_aspa", "C11_counts", "C11_model_satisfies_spec", "C11_nonvacuous"],
    "streams": [{
        "name": "construct", "bin": "c11", "check_module": "C11.Spec",
        "model_expr": "model_obs (c_old CASE) (c_new CASE)",
        "why": {"2": "C11.Spec.spec_okb false: the change set PayloadDelta::construct returned is not exactly the "
                     "difference of the two data sets (emptiness, apply, listed actions or counts)"},
    }],
    "level_text": "Theorems over all pairs of strictly sorted data sets (no size bound): the change set is empty iff "
                  "the sets are equal, applying it yields the new set, it lists exactly the differing items, counts "
                  "match; the executable oracle of the property is proved to hold of the model on every input and is "
                  "evaluated on the implementation's output for every generated case.",
    "level_note": "Model hand-written from src/payload/delta.rs; tie = differential run of PayloadDelta::construct "
                  "(public API) against the model inside Coq. Trusted: Coq kernel, harness, rank encoding via the rpki "
                  "crate's Ord.",
    "rule": "cases: all pairs of subsets of a 3-item universe per payload type (+ changed ASPA providers), boundary "
            "(empty/full), random independent sets and small mutations over universes of 4..23 origins, 2 large "
            "sets; distinct = distinct Coq case term; non-trivial = the implementation returned a non-empty change set",
    "assumptions": ["Ord/Eq of RouteOrigin, RouterKey, Aspa in the rpki crate are consistent total orders (items are "
                    "rank-encoded with them)", "PayloadSnapshot inputs have unique items/customers (what "
                    "into_snapshot produces)"],
}
