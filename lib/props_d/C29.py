"""C29 check configuration."""
SPEC = {
    "module": "C29.Property",
    "targets": ["C29/Property.vo"],
    "theorems": ["C29_domain_is_everything", "C29_table_on_domain", "C29_repository_is_table",
                 "C29_no_notify_uses_rsync", "C29_rsync_exactly_when", "C29_rsync_disabled_never_rsync",
                 "C29_updated_always_used", "C29_current_never_falls_back", "C29_rrdp_only_after_update",
                 "C29_end_to_end", "C29_model_satisfies_spec", "C29_model_satisfies_kspec", "C29_nonvacuous"],
    "streams": [
        {"name": "table", "bin": "c29", "check_module": "C29.Spec", "env": {"C29_STREAM": "table"},
         "model_expr": "model_obs (c_pol CASE) (c_rrdp CASE) (c_rsync CASE) (c_notify CASE) (c_out CASE)",
         "why": {"2": "C29.Spec.spec_okb false: for this policy / RRDP outcome / enabled transports / CA, "
                      "collector::Run::repository chose a transport other than the documented one (or ran the "
                      "rsync command although rsync is not the transport it returned)"}},
        {"name": "classify", "bin": "c29", "check_module": "C29.Spec", "env": {"C29_STREAM": "classify"},
         "fn": "check_kcase", "casetype": "kcase",
         "model_expr": "model_kobs (k_pol CASE) (k_rsync CASE) (k_copy CASE) (k_server_ok CASE)",
         "why": {"2": "C29.Spec.kspec_okb false: with this local copy (none / expired / current) and this "
                      "answer of the RRDP server the collector used a transport other than the documented one"}},
    ],
    "level_text": "The decision function of collector::Run::repository is transcribed literally and proved equal "
                  "to the documented fallback table on its whole domain (3 policies x 4 RRDP outcomes x RRDP on/off "
                  "x rsync on/off x CA with/without rpkiNotify = 96 points; forallb ... = true by vm_compute over an "
                  "enumeration proved complete and duplicate-free, lifted with forallb_forall, so the theorem "
                  "quantifies over every input); each sentence of the property is a separate theorem; composed with "
                  "try_update's classification it is proved for every age of the local copy (unbounded Z). The "
                  "correspondence run executes the real Run::repository on all 96 points (exhaustive).",
    "level_note": "Model hand-written from src/collector/base.rs (Run::repository) and src/collector/rrdp/base.rs "
                  "(try_update's result classification). Tie 'table': public collector::Collector / Run::repository "
                  "with real self-signed CA certificates (rpki builder, validate_ta), a logging fake rsync command, "
                  "and the RRDP outcome injected at the call site of rrdp.load_repository through the add-only cfg "
                  "hook verif_forced_outcome (the real load_repository still runs; its host is rejected as dubious "
                  "so no network is touched); exhaustive over the 96-point domain. Tie 'classify': no injection, a "
                  "local HTTPS server (rustls, fixture certificate via rrdp-root-certs) answers the notification "
                  "request with 304 / 404 / garbage and the cache holds no / an expired / a current archive. "
                  "Trusted: Coq kernel, harness, the fake rsync log. Not covered: a 304 answer without local copy "
                  "(C25), unrepresentable best-before timestamps in a corrupted archive.",
    "rule": "table: every point of the 96-point domain once (class exhaustive; stats x_exhaustive=true is computed "
            "from the generated inputs) plus 60 (quick) / 400 (thorough) randomly drawn repeats with fresh "
            "collectors; classify: policy x {no copy, expired, current} x {304, 404, unparsable 200} x rsync on/off "
            "minus (no copy, 304) = 48 points plus random copy ages from 30 s to 95 years; distinct = distinct Coq "
            "case term; non-trivial = CA announces RRDP and RRDP is enabled",
    "assumptions": ["the fake rsync command sees every rsync invocation (rsync runs only through config.rsync_command)",
                    "classify stream: best-before times at least 30 s away from the wall clock (no clock race)"],
}
