"""C23 check configuration."""
_WHY = {"2": "C23.Spec.spec_okb false: after the process kill at the given kill point the store does not read as the state "
             "after a completed prefix of the run's actions (a stored point, trust anchor certificate or the status is "
             "neither its old nor its new complete version), or a reader failed (StoredPoint::open, Store::status), or "
             "the next command did not work (vrps --update-after exit status, run without updates, next full run)"}
SPEC = {
    "module": "C23.Property",
    "targets": ["C23/Property.vo"],
    "theorems": ["C23_crash_atomic", "C23_not_blocked", "C23_inv_empty", "C23_inv_run", "C23_inv_crash",
                 "C23_next_run_congruent", "C23_torn_header_is_eof", "C23_refuted_before_fix",
                 "C23_model_satisfies_spec", "C23_nonvacuous"],
    "streams": [
        {"name": "unit", "bin": "c23", "check_module": "C23.Spec", "env": {"C23_STREAM": "unit"},
         "model_expr": "(model_killed CASE, model_labels CASE, model_views CASE)", "why": _WHY},
        {"name": "e2e", "bin": "c23", "check_module": "C23.Spec", "env": {"C23_STREAM": "e2e"},
         "model_expr": "(model_killed CASE, model_labels CASE, model_views CASE)", "why": _WHY},
    ],
    "level_text": "Theorems over every run (any list of store actions: open incl. create and the LastAttempt rewrite, "
                  "update incl. aborted ones, reject, update_ta, done, cleanup removals) from every directory state "
                  "satisfying the store invariant, every number of completed file operations and every torn write "
                  "(any byte count): for the readers of the next process (StoredPoint::open + iteration, Store::status, "
                  "Run::load_ta) the crash state equals the state after the actions completed before the kill or one "
                  "more; no reader fails; the invariant survives (so the argument repeats over any history of runs and "
                  "crashes); view-equal states stay view-equal under further actions. Partial: what survives a process "
                  "kill is modelled (completed write calls persist, in order); power loss / write-back order / missing "
                  "fsync are not; I/O errors and directories are not; the step from equal views to equal payload is the "
                  "engine's (tested end to end here, not proved here).",
    "level_note": "Model hand-written from src/store.rs + src/utils/fatal.rs (fixed code) over Base/Fs.v and the record "
                  "codecs of C28/Model.v. Tie: a child process is killed (abort) at the k-th kill point "
                  "(cfg(routinator_verif) hooks between the file operations, optionally after only some bytes of the "
                  "write), for every k. Stream unit: the store API on small values, raw bytes of every file under "
                  "stored/ compared with the model's crash state (time stamps normalised, temporary files up to "
                  "buffering; a file the model has no name for is an observation that cannot agree), readers "
                  "in-process, and Store::dump run on every crash state as part of the oracle (oracle-only: dump is "
                  "not modelled). Stream e2e: a real rpkigen world (2 TALs, 6 publication points, 2 "
                  "versions), kill inside the real Engine run, then fresh processes: the real `vrps --update-after`, a "
                  "run without updates (= what the store holds), the next full run (= the uninterrupted run's data); "
                  "model on stand-in values. Trusted: Coq kernel, harness, kill hooks, C27/C28's tie of the codecs.",
    "rule": "unit: 15 scenarios (each store function from each prior state of the file, a whole run) x every kill point x "
            "torn-write cuts (all cuts for create / status / trust anchor, a few elsewhere) + random action sequences; "
            "e2e: every kill point of the second run + torn writes; corpus witnesses first; distinct = distinct Coq case "
            "term; non-trivial = the child was actually killed",
    "assumptions": ["rpki URI predicates arbitrary except that the empty string is not an https URI",
                    "a process kill loses nothing a completed write/rename/unlink call has done and tears at most the "
                    "write in progress (no power loss)",
                    "record codecs as modelled in C28/Model.v (tied by C27/C28)"],
}
