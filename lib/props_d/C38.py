"""C38 check configuration."""
SPEC = {
    "module": "C38.Property",
    "targets": ["C38/Property.vo"],
    "theorems": ["C38_stream_accept_iff", "C38_stream_refuse", "C38_every_chunking", "C38_chunking_irrelevant",
                 "C38_ta_result", "C38_ta_accept_iff", "C38_ta_never_partial", "C38_unfixed_refuted",
                 "C38_unfixed_refuses_every_size_when_unlimited", "C38_zero_means_unlimited", "C38_limit_is_setting",
                 "C38_model_satisfies_spec", "C38_model_satisfies_tspec", "C38_model_satisfies_cspec",
                 "C38_nonvacuous"],
    "streams": [
        {"name": "reader", "bin": "c38", "check_module": "C38.Spec", "env": {"C38_STREAM": "reader"},
         "fn": "check_rcase", "casetype": "rcase",
         "model_expr": "model_robs (rc_limit CASE) (rc_reads CASE) (rc_all CASE)",
         "why": {"2": "C38.Spec.rspec_okb false: LimitedDataRead accepted a body larger than the limit, refused one "
                      "within the limit (or with the limit disabled), accepted after a failed read, or handed out "
                      "bytes that are not the body"}},
        {"name": "ta", "bin": "c38", "check_module": "C38.Spec", "env": {"C38_STREAM": "ta"},
         "fn": "check_tcase", "casetype": "tcase",
         "model_expr": "model_tobs (tc_limit CASE) (tc_cl CASE) (tc_size CASE) (tc_fault CASE)",
         "why": {"2": "C38.Spec.tspec_okb false: collector Run::load_ta refused an HTTPS trust anchor certificate "
                      "that is within the configured limit (or with the limit disabled), or handed out data for "
                      "one that is larger than the limit / was not transferred completely"}},
        {"name": "config", "bin": "c38", "check_module": "C38.Spec", "env": {"C38_STREAM": "config"},
         "fn": "check_ccase", "casetype": "ccase",
         "model_expr": "model_cobs (cc_file CASE) (cc_arg CASE)",
         "why": {"2": "C38.Spec.cspec_okb false: max-object-size from file / command line does not become the "
                      "limit in force (0 = unlimited), or rsync is not given the same limit"}},
    ],
    "level_text": "Theorems by induction over the list of reads (any number of reads of any sizes, no bound on the "
                  "body): LimitedDataRead::read_all accepts a body iff the limit is disabled or size <= L, for every "
                  "chunking, and refuses with the size-limit error otherwise; the (fixed) Run::load_ta hands out an "
                  "HTTPS trust anchor certificate iff the same condition holds, with or without a Content-Length "
                  "header, and never hands out a truncated body; max-object-size = 0 is exactly 'unlimited'. The "
                  "code as found is proved to violate the property in both directions (C38_unfixed_refuted); it was "
                  "fixed (notes/C38-fix.patch) and the fixed code is what is modelled and checked.",
    "level_note": "Model hand-written from src/collector/rrdp/http.rs (LimitedDataRead), std's read_to_end, "
                  "src/collector/rrdp/base.rs (load_ta, fixed: compare Content-Length with the limit only when both "
                  "are present; a failed read refuses the certificate instead of returning the bytes read so far), "
                  "src/config.rs. Tie 'reader': the real LimitedDataRead through the constructor-exposure hook "
                  "Config::verif_limited_read over a scripted in-memory reader, the model is fed the read sizes the "
                  "wrapped reader actually returned. Tie 'ta': public Collector::start().load_ta against a local "
                  "HTTPS server (rustls, fixture certificate via rrdp-root-certs) with Content-Length, chunked and "
                  "close-delimited bodies, error status and truncated bodies; no hook. Tie 'config': public clap "
                  "interface + config file; the rsync collector's --max-size argument seen by a fake rsync. "
                  "Trusted: Coq kernel, harness, reqwest/hyper delivering Content-Length faithfully. Not covered: "
                  "what rsync itself does with --max-size; RRDP objects end to end through snapshot/delta XML (the "
                  "reader they use is covered by the 'reader' stream); 32-bit usize.",
    "rule": "reader: every chunking of every body of size 0..5 under limits None, 0..6, both drains (512); limit in "
            "{None, 1, 100, 20000000} x size in {0, L-1, L, L+1, large} x {single read, byte-wise, split at the "
            "limit, halves, 1+rest, rest+1, random} x both drains; 500/4000 random around small limits; 250/1500 with "
            "an injected read error / early EOF; ta: the same limit x size grid x {Content-Length, chunked, "
            "close-delimited} x {written at once, in pieces}, 80/600 random, 24/120 server faults, plus the corpus "
            "witnesses; config: 7x7 boundary values for file x command line + random; distinct = distinct Coq case "
            "term; non-trivial = limit set and more than one read (reader), limit set and no fault (ta), a value "
            "given (config)",
    "assumptions": ["reqwest's Response::content_length() is Some(n) exactly when the server sent Content-Length: n "
                    "(observed through the local server), and hyper reports a body shorter than declared as a read error",
                    "usize fits u64 (the try_from failure branch of LimitedDataRead::read is unreachable on 64-bit targets)"],
}
