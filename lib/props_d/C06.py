"""C06 check configuration."""
SPEC = {
    "module": "C06.Property",
    "targets": ["C06/Property.vo"],
    "theorems": ["C06_reject_nothing_from_stale", "C06_reject_stale_point_rejected", "C06_rejected_point_ends_the_chain",
                 "C06_warn_accept_as_without_staleness", "C06_premature_fetched_never_accepted",
                 "C06_premature_never_accepted", "C06_model_satisfies_spec", "C06_nonvacuous"],
    "streams": [{
        "name": "histories", "bin": "c06", "check_module": "C06.Spec",
        "model_expr": "model_obs (c_chain CASE) (c_runs CASE)",
        "why": {"2": "C06.Spec.spec_okb false in some run of the history: under policy reject payload of a version with a "
                     "stale manifest or CRL was accepted, or payload / a store entry of a premature manifest appeared, or "
                     "a level below a rejected point contributed, or under warn/accept the accepted versions / store "
                     "differ from those of the same world without the staleness"},
    }],
    "level_text": "Theorems over every chain of publication points (any number of levels and versions, any verdict bits), "
                  "every store content and every history of runs: with policy reject whatever a point is accepted from, on "
                  "the fetched or on the stored path, has neither a stale manifest nor a stale CRL, a point whose fetched "
                  "and stored versions are stale is rejected, and nothing below a rejected point is processed; with warn "
                  "or accept every run of a history equals (accepted versions, store, non-stale metrics ticks) the run "
                  "with policy reject on the same data with all staleness removed; a premature fetched manifest is never "
                  "accepted whatever the policy and, by an invariant of the store over histories from an empty store, is "
                  "never accepted on the stored path either. The hierarchy is modelled as a CHAIN (one child per point); "
                  "siblings and the tree are not modelled.",
    "level_note": "Model hand-written from src/engine.rs (PubPoint::process, process_collected, validate_collected_manifest/"
                  "_crl, check_collected_is_newer, process_stored, validate_stored_manifest, accept/reject_point); the rpki "
                  "crate's verdicts enter as bits per version taken from the generator's ground truth. Tie = real signed "
                  "repositories (rv_harness::rpkigen, one rsync module), histories of 1..3 real Engine runs on one cache "
                  "(dirty = true: cleanup not exercised); compared inside Coq per run: which version of every level "
                  "contributed payload, which version the store holds, valid/rejected points, stale_manifests, stale_crls, "
                  "premature_manifests. Interpretation (notes/C06.md): 'a CA whose manifest is stale contributes nothing' "
                  "is read per version: with reject a stale fetched version is not used but an older non-stale stored "
                  "version still is. Staleness cannot change between the runs of one history (time does not pass); the "
                  "stored path meets stale data through a policy change or engine-without-collector run.",
    "rule": "cases: stale manifest / stale CRL / premature manifest at each of the 4 levels x policies {reject, warn, "
            "accept} x {fresh cache, stored data without collector, stored data with rsync unreachable} (threads 1 and 4); "
            "a good stored version followed by a stale / premature newer one at levels 0, 1, 3 x policies, then a run "
            "without collector; policy tightened and relaxed over stored stale data; both stale; stale + missing file; "
            "random chains of 2..4 levels, 1..3 versions, faults incl. other invalidity, histories of 1..3 runs with "
            "random policies / modes / plans (quick 70, thorough 1500); distinct = distinct Coq case term; non-trivial = "
            "some run met stale/premature data or rejected a point",
    "assumptions": ["verdict bits of a version do not change between the runs of a history (all times are at least 1 h "
                    "away from now)", "the stored manifest's cached number/thisUpdate agree with its bytes (else "
                    "check_collected_is_newer discards the stored point: not modelled)",
                    "versions of a point have distinct manifest bytes (index equality = byte equality)"],
}
