"""C16 check configuration."""
import importlib.util, os
_p = os.path.join(os.path.dirname(os.path.abspath(__file__)), "C15.py")
_s = importlib.util.spec_from_file_location("c15cfg", _p); _m = importlib.util.module_from_spec(_s); _s.loader.exec_module(_m)
SPEC = {
    "module": "C16.Property",
    "targets": ["C16/Property.vo"],
    "theorems": ["C16_not_modified_only_for_served_version", "C16_created_monotone", "C16_model_satisfies_spec", "C16_nonvacuous"],
    "streams": [dict(_m.STREAM, name="srv16")],
    "level_text": "Theorem over all histories: validators (ETag, Last-Modified) issued in any reachable state, followed by ANY "
                  "sequence of validation-thread steps with fewer than 2^32 version changes, then a conditional request "
                  "carrying one or both of them: a 304 implies that no version change happened (same serial, same data "
                  "set). Proved via monotonicity of the creation time (strictly later second at every version change). "
                  "The oracle (304 only if the validators were copied from a response of the version being served) is "
                  "evaluated on the real dispatcher at every gap of the validation cycle with a controlled clock.",
    "level_note": "Models src/http/response.rs maybe_not_modified (ETag list incl. the exact tag, If-Modified-Since at whole "
                  "seconds against the nanosecond creation time) and history.rs after 'fix: advance the creation time together "
                  "with the data set'. Not modelled: the EtagsIter tokenizer on malformed headers, weak tags, '*' (requests "
                  "in the tie carry validators exactly as issued). Clock = hook override of Utc::now in update/mark_update_done.",
    "rule": _m.RULE,
    "assumptions": ["fewer than 2^32 data-set changes between issuing a validator and presenting it",
                    "lock atomicity; single validation thread"],
}
