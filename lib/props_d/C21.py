"""C21 check configuration."""
SPEC = {
    "module": "C21.Property",
    "targets": ["C21/Property.vo"],
    "theorems": ["C21_select_origin", "C21_select_router_key", "C21_select_aspa", "C21_listed_exact", "C21_listed_origin_iff",
                 "C21_json_formats_parse", "C21_dec_is_number", "C21_model_satisfies_spec", "C21_unfixed_refuted", "C21_nonvacuous"],
    "streams": [{
        "name": "output", "bin": "c21", "check_module": "C21.Spec",
        "model_expr": "model_obs (c_fmt CASE) (c_meta CASE) (c_out CASE) (c_snap CASE)",
        "why": {"2": "C21.Spec.spec_okb false (or the harness reader rejected the output): the items read back from the "
                     "output are not exactly the admitted items of the data set, or a JSON/SLURM output is not the JSON "
                     "document listing them"},
    }],
    "level_text": "Theorems with no bound on the data set, the selection list or the strings. (1) Selection: the executable "
                  "predicates of Selection/SelectResource are equivalent to the documented meaning (select-asn: same "
                  "ASN; select-prefix: VRPs covering the prefix, plus VRPs covered by it when more-specifics is on; "
                  "router keys and ASPAs by ASN only). (2) All 13 formats, every exclusion combination: the items an "
                  "output lists are exactly filter(selected and type enabled and format carries the type) of the data "
                  "set, in its order, each once (OutputStream state machine, generic in the formatter, instantiated "
                  "with the control flow of each formatter). (3) json, jsonext, slurm, slurm2 at byte level: the output "
                  "is one JSON document and it parses (Coq JSON reader) to the document that lists exactly the admitted "
                  "items with their fields - for ANY TAL name, exception comment and path. Byte-level models also "
                  "exist for csv, csvcompat, openbgpd, bird1, bird2, none and are compared byte for byte with the "
                  "implementation; csvext, rpsl, summary are checked at item level only (their bytes contain dates / "
                  "the current time / upper-cased names and are not modelled). 'SLURM output parses back as a SLURM "
                  "file with exactly the listed assertions' is established per generated case by routinator's own "
                  "LocalExceptions::from_json and rpki SlurmFile (the harness hands the assertions read back to Coq, "
                  "which compares them with the filter), not by a Coq model of RFC 8416. URL query parsing "
                  "(update_from_query) is exercised (half of the cases go through Output::from_query) but not modelled.",
    "level_note": "Model hand-written from src/output.rs AFTER the fix for finding F6 (json, slurm, slurm2 wrote the TAL "
                  "name verbatim; now through json_str); C21_unfixed_refuted proves the old writers produce non-JSON for a "
                  "TAL name with a quote. Text that comes from other crates' Display impls (IP addresses, hex/base64 of "
                  "keys, ISO dates, rsync URIs) is carried pre-rendered in the items under the checked premise that it "
                  "needs no JSON escaping; integers are printed by the model (dec, proved to be a JSON number). Tie = "
                  "Output::write (public API) on PayloadSnapshots built from generated items whose PayloadInfo chains "
                  "carry TalInfo::from_name names (PublishInfo exposed by one cfg-guarded pub use), exception comments "
                  "and paths; per-format readers in the harness (serde_json, LocalExceptions::from_json, SlurmFile, line "
                  "parsers). Trusted: Coq kernel, harness readers, rpki Prefix::covers as transcribed.",
    "rule": "grid: every format x every exclusion combination on a fixed 8-item data set with nasty TAL names, plus five "
            "selections (none, ASN, prefix, prefix+more-specifics, empty selection) through the API and through the "
            "query syntax; boundary: empty data set, /0 and host prefixes (v4, v6) with covering / covered / sibling "
            "selections, duplicate items, control characters and line breaks in TAL names, comments, paths (JSON "
            "formats and formats that do not print the name); 24 random scenarios (subsets of a pool around 5 base "
            "prefixes, up to 3 selection rules, random exclusions) x 6 formats each. distinct = distinct Coq case term; "
            "non-trivial = the output lists at least one item.",
    "assumptions": ["Display of IpAddr, KeyIdentifier, RouterKeyInfo, uri::Rsync, format_iso_date and base64::Slurm "
                    "produce text without quote, backslash or control characters (checked per case: plainb)",
                    "PayloadSnapshot iterates items in the order its public iterators report (the model input is read "
                    "back through them)",
                    "TAL names shown by the line formats csv, csvcompat, rpsl, summary contain no line break (a name with "
                    "a line feed adds bogus rows there; observation recorded in notes/C21.md, no such case generated)"],
}
