"""C15 check configuration (server model shared with C16 and C33)."""
STREAM = {
    "bin": "c15", "check_module": "C15.Spec",
    "why": {"2": "C15.Spec.spec_okb false against the abstract history: some reader operation (RTR ready/notify/full/diff, "
                 "GET /json incl. conditional requests, GET /json-delta) observed at a gap of the validation cycle paired a "
                 "serial with the wrong data, answered 304 for validators of another version, served data before the first "
                 "data set, or a failed run changed what is served / sent a notification"},
}
RULE = ("5 clock boundary histories (three clock readings in one second so that the creation time runs ahead of the clock, whole seconds, the clock stepping back, ...: the case split of advance_created) and 24 (quick) / 120 (thorough) random server histories: history-size in {1,2,3,10}, 1..5 validation cycles (data: "
        "unchanged / small mutation; outcome ok / retryable / fatal with probability 1/4; completion times in the same "
        "second, next second, whole seconds, minutes apart). The validation thread is stopped at every lock acquisition and "
        "at the points after update and after mark_update_done (7 gaps per successful cycle, 2 per failed one); at each gap "
        "~25 reader operations run once each (conditional requests built from the validators of up to 3 earlier "
        "responses). distinct = distinct Coq case term; non-trivial = more than one cycle's worth of gaps observed")
SPEC = {
    "module": "C15.Property",
    "targets": ["C15/Property.vo"],
    "theorems": ["C15_replies_paired", "C15_change_sets_exact", "C15_nothing_before_first",
                 "C15_other_steps_keep_history", "C15_model_satisfies_spec", "C15_each_reply_meets_oracle",
                 "C15_oracle_nonvacuous", "C15_nonvacuous"],
    "streams": [dict(STREAM, name="srv15"),
                {"name": "readers", "bin": "c15", "check_module": "C15.Spec", "fn": "check_rcase", "casetype": "rcase",
                 "env": {"C15_STREAM": "readers"},
                 "why": {"2": "a single reader operation (RTR full/diff, GET /json, GET /json-delta) took the history lock more "
                              "than once and, with a validation cycle injected between the two acquisitions, returned a "
                              "serial paired with data of another version"}}],
    "level_text": "Theorems for every server state reachable by any sequence of the validation thread's atomic steps "
                  "(install / mark done / notify, any number of cycles): every reader operation - each one atomic step in "
                  "the model, as each takes the history lock once in the code - pairs the current serial with exactly the "
                  "data set issued under it; change sets are exact (via C13); nothing is served before the first data set. "
                  "Partial: lock atomicity (std RwLock) and the claim 'one lock acquisition per operation' are not proved "
                  "about the Rust code; the latter is checked by the correspondence, which stops the validation thread "
                  "before every lock acquisition (hook in SharedHistory::read/write) and probes every reader at every gap, "
                  "so an update split over two acquisitions exposes an extra gap with inconsistent answers; the dual stream "
                  "`readers` stops every READER operation before each of its lock acquisitions and runs a whole validation "
                  "cycle before the second one, so an operation that reads serial and data under two acquisitions returns "
                  "an answer that matches no single instant.",
    "level_note": "Model: C13 history model + creation time + notification generation (coq/C15/Model.v) transcribed from "
                  "src/payload/history.rs, src/operation.rs process_once, src/http/payload.rs, src/http/response.rs "
                  "maybe_not_modified, src/http/delta.rs. Tie: real Engine (no TALs) + real Server::process_once + real HTTP "
                  "dispatcher + real PayloadSource via hooks; gap-by-gap observation compared inside Coq.",
    "rule": RULE,
    "assumptions": ["std::sync::RwLock makes a critical section atomic", "single validation thread",
                    "history-size < 2^31", "data sets contain route origins only in this stream"],
}
