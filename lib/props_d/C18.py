"""C18 check configuration."""
SPEC = {
    "module": "C18.Property",
    "targets": ["C18/Property.vo"],
    "theorems": ["C18_delta_stream_exact", "C18_snapshot_stream_exact", "C18_delta_threshold_independent",
                 "C18_snapshot_threshold_independent", "C18_chunks_independent", "C18_chunks_long", "C18_model_satisfies_spec", "C18_nonvacuous"],
    "streams": [{
        "name": "streams", "bin": "c18", "check_module": "C18.Spec",
        "why": {"2": "the concatenated chunks of a /json-delta response do not lex to the tokens of the JSON document listing "
                     "exactly the announced / withdrawn items with the right session and serials (or are not one valid document)"},
    }],
    "level_text": "Theorems for every chunk threshold, header and change set / data set (no bound on the number of items): "
                  "the concatenation of the chunks is independent of the threshold, every chunk but the last exceeds it, "
                  "and the bytes lex and parse (Base/Json parser) to exactly the document listing the announced and the "
                  "withdrawn items with session and serials - proved through a generic layout-carrying emitter "
                  "(Base/JsonEmit.emit_lexes). The oracle re-lexes the implementation's bytes inside Coq and compares "
                  "tokens with the expected document; the model's chunks must equal the implementation's chunk by chunk.",
    "level_note": "Model: DeltaStream / SnapshotStream of src/http/delta.rs at byte level (incl. the raw line breaks inside "
                  "two format strings, the `first` flag across chunk boundaries, 64000-byte threshold). Formatted fields (ASN, "
                  "prefix, key identifier, base64 key, time) are inputs produced with the same Display impls the code uses; "
                  "that they need no JSON escaping is checked per case by the tie, not proved. Tie: real HTTP dispatcher, data "
                  "sets with all three payload types installed through hooks verif_init_at + mark_update_done (clock override).",
    "rule": "5 delta responses whose announced list ends at byte offsets 63978..64001 (the chunk threshold falls before, inside and after the 22-byte separator between the lists; 53 offsets in the thorough tier); 40 small data-set pairs (all payload types; empty announce / empty withdraw / equal sets; serials at 0, 1, 41, "
            "2^32-2, 2^32-1) and 1 large one in the quick tier (470 route origins: the chunk boundary is crossed; 6 sizes up to 1400 in the thorough tier), each as delta and "
            "as snapshot response; distinct = distinct Coq case term; non-trivial = at least one item listed",
    "assumptions": ["Display output of Asn, Prefix, KeyIdentifier, RouterKeyInfo contains no character that needs JSON escaping "
                    "(validated per case)"],
}
