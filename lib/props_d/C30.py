"""C30 check configuration."""
SPEC = {
    "module": "C30.Property",
    "targets": ["C30/Property.vo"],
    "theorems": ["C30_rsync_parse_wf", "C30_https_parse_wf", "C30_ta_confined", "C30_ta_distinct", "C30_repo_confined",
                 "C30_repo_distinct", "C30_point_confined", "C30_point_distinct", "C30_archive_confined",
                 "C30_archive_distinct", "C30_module_confined", "C30_module_distinct", "C30_file_confined",
                 "C30_file_distinct", "C30_dump_object_confined", "C30_dump_registry_distinct",
                 "C30_dump_registry_names_plain", "C30_dump_registry_names_no_slash", "C30_dump_file_distinct",
                 "C30_dump_refuted_before_fix", "C30_dump_refuted_rsync_before_fix", "C30_sha256_hex_shape",
                 "C30_model_satisfies_spec", "C30_nonvacuous"],
    "streams": [{
        "name": "paths", "bin": "c30", "check_module": "C30.Spec",
        "model_expr": "(paths_model (c_cache CASE) (c_rs CASE) (c_hs CASE), "
                      "dumpnames_model (dump_base (c_cache CASE)) (c_hs CASE))",
        "why": {"2": "C30.Spec: a path built for a URI leaves the cache directory, or two uses of non-equivalent "
                     "URIs resolve to the same file (spec_okb / cross_okb), or a dump directory is shared or two "
                     "dump writes share a file"},
    }],
    "level_text": "Theorems over all URIs accepted by the (modelled) rpki parsers and all cache directories, no size "
                  "bound: every path built by the store (TA certificates, RRDP repository directories, publication "
                  "points of all repositories), the rsync collector (module directory, object copy), the RRDP "
                  "collector (archive) and Store::dump_object resolves lexically to a path below its root; within "
                  "each family two URIs produce the same file (same resolution and same trailing-separator flag) "
                  "only if they are equivalent, for every digest function of hex shape that does not collide on "
                  "the inputs concerned; DumpRegistry gives different RRDP repositories different names, each a "
                  "normal path component other than 'rsync' and without a separator, and dump files do not collide "
                  "when repository directories are such plain names (finding F19 - authorities '..', '.', '' and "
                  "'rsync' got the directory itself, its parent or the rsync repository's directory - repaired by a "
                  "fix: commit; witnesses for the old registry kept as theorems).",
    "level_note": "Model hand-written from utils/uri.rs, store.rs, collector/rsync.rs, collector/rrdp/base.rs, "
                  "utils/dump.rs, rpki-0.19.3 uri.rs; SHA-256 implemented in Coq (Base/Sha256.v) for evaluation. Tie: "
                  "exact path strings from cfg hooks (Store::verif_*, Config::verif_rsync_paths, "
                  "Config::verif_rrdp_repository_path), public UriExt::unique_path, DumpRegistry::get_repo_path, and "
                  "files found on disk after the public Store Run::update_ta and after dump_object writes. "
                  "Distinctness between different families (e.g. a TA file vs an archive) is checked on the "
                  "implementation's paths (cross_okb) but not proved. Trailing-separator paths are treated as "
                  "naming directories only (POSIX resolution).",
    "rule": "cases: all pairs of rsync URIs over a 2x2x3 universe and all pairs of 7 HTTPS authority forms, boundary "
            "classes from the proof's case splits (authority normal/'.'/'..'/empty, trailing separator, upper case, "
            "scheme case, hash-like and directory-name-like components, odd legal characters, deep paths), 100 "
            "random URI sets from small pools, 21 malformed; distinct = distinct Coq case term; non-trivial = at "
            "least two accepted URIs",
    "assumptions": ["SHA-256 does not collide on the digest inputs of the URIs concerned (hypothesis hd_injective / "
                    "no_collision in the statements)",
                    "a path with a trailing separator never names a regular file (POSIX pathname resolution)",
                    "paths are compared after lexical resolution of '.', '..' and empty components (no symlinks "
                    "inside the cache directory)"],
}
