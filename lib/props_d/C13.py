"""C13 check configuration."""
_STREAM = {
    "name": "history", "bin": "c13", "check_module": "C13.Spec",
    "why": {"2": "C13.Spec.spec_okb false against the abstract history (list of all issued versions): a client answer "
                 "is not the exact change set to the current data / an in-window serial was refused / a never-issued "
                 "serial was answered / serial stepping or the bound on retained change sets is wrong"},
}
SPEC = {
    "module": "C13.Property",
    "targets": ["C13/Property.vo"],
    "theorems": ["C13_invariant", "C13_exact_or_refused", "C13_current_is_empty", "C13_window_served",
                 "C13_window_size", "C13_unknown_refused", "C13_foreign_session_refused", "C13_delta_since_spec", "C13_model_satisfies_spec",
                 "C13_nonvacuous"],
    "streams": [_STREAM,
                # an answer must also be exact when a validation cycle lands inside the query (shared with C15)
                {"name": "readers13", "bin": "c15", "check_module": "C15.Spec", "fn": "check_rcase", "casetype": "rcase",
                 "env": {"C15_STREAM": "readers"},
                 "why": {"2": "a serial query / json-delta request took the history lock more than once: with a validation "
                              "cycle in between the change set and the serial it is tagged with belong to different versions"}}],
    "level_text": "Invariant proof over all histories (any number of updates, any starting serial incl. wrap-around): "
                  "the retained change sets always describe a window of consecutively issued versions, and "
                  "delta_since equals the abstract answer function of that window; hence every answer is exact and "
                  "tagged with the current serial, the current serial gets the empty change set, every version in "
                  "the window (retained change sets + 1, see C14 for the count) is answered, everything else and "
                  "every foreign session is refused. Hypothesis history-size < 2^31 is explicit. The executable "
                  "oracle (independent abstract spec: list of all issued versions) is evaluated on the "
                  "implementation's answers; C13_model_satisfies_spec proves that the model's observations satisfy that "
                  "oracle for every update sequence and query list (refinement of the abstract history).",
    "level_note": "Model hand-written from src/payload/history.rs after the two fix: commits (push_delta bound; "
                  "delta_since exact match on serial+1). Tie: SharedHistory::update through the public API with SLURM "
                  "prefix assertions as data, PayloadSource::{diff,full,notify,ready}; hook verif_init_at places the "
                  "serial near 2^31 / 2^32; hook verif_delta_count observes the queue length. HTTP /json-delta uses the "
                  "same delta_since (its 64-bit session comparison is covered by C15/C18 streams when built).",
    "rule": "cases: corpus (F2, F3, F18 witnesses) then 400 (quick) random histories: history-size in {0,1,2,3,5,10}, "
            "start at serial 0 or via the hook at {0,1,5,2^31-3,2^31,2^32-5,2^32-2,2^32-1}, 0..9 updates "
            "(no-change / independent / small mutation), 23+ queries each: current-d for d in 0..6,9..12, current+{1,2,"
            "2^31-1,2^31,2^31+1}, 0, 1, foreign session, 3 random serials; distinct = distinct Coq case term; "
            "non-trivial = at least two queries were answered with a change set",
    "assumptions": ["history-size < 2^31 (config file enforces <= 65535)",
                    "RwLock makes each PayloadSource call atomic (C15)",
                    "data sets contain route origins only in this stream (router keys/ASPAs are exercised in C11/C12)"],
}
