"""C32 check configuration."""
SPEC = {
    "module": "C32.Property",
    "targets": ["C32/Property.vo"],
    "theorems": ["C32_vrps_terminates", "C32_vrps_ok_only_after_ok_run", "C32_one_shot",
                 "C32_server_at_most_two_retries", "C32_server_never_exits_ok", "C32_server_all_failing_stops",
                 "C32_old_vrps_refuted", "C32_model_satisfies_spec", "C32_nonvacuous"],
    "streams": [{
        "name": "retry", "bin": "c32", "check_module": "C32.Spec", "model_expr": "model_exit CASE",
        "why": {"2": "a command ran validation more than twice / kept retrying, reported success without a successful run, "
                     "or the server survived more than the initial failure plus one retry"},
    }],
    "level_text": "Theorems over ALL outcome streams (functions nat -> outcome, i.e. unbounded fault sequences) and all "
                  "behaviours of sanitize: vrps ends after at most two runs and succeeds only after a successful run; "
                  "validate and update run once; the server's validation thread never ends while runs succeed, survives at "
                  "most the failed initial run plus one retry, and is down after at most three runs when every run fails. "
                  "The loop before the fix is refuted: on the constant retryable stream it returns OutOfFuel for every "
                  "fuel (induction). The commands are run for real in child processes with forced outcomes.",
    "level_note": "Model: the retry automata of Vrps::run (after fix: stop retrying when the restarted run fails again), "
                  "Validate::get_snapshot, Update::run and Server::run's thread (src/operation.rs). Tie: the real commands "
                  "through Operation::from_arg_matches / Operation::run in a child process (as main.rs), run outcomes forced "
                  "and counted by the hook at the top of ValidationReport::process; exhaustive over all outcome sequences up "
                  "to length 4 (last outcome repeating) for vrps, length 2 for validate/update, and all server sequences "
                  "ending in a failure with at most two successes.",
    "rule": "exhaustive: vrps 120 sequences (length 1..4 over ok/retry/fatal), validate and update 12 each, server the "
            "sequences ending in a failure with <= 2 successes, plus an 8-retries-then-fatal streak per command; distinct = "
            "distinct Coq case term; non-trivial = at least one failing run in the sequence",
    "assumptions": ["Engine::sanitize succeeds in the tie (no I/O errors); the theorems quantify over its result"],
}
