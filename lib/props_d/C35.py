"""C35 check configuration (printed configuration reads back identically)."""
SPEC = {
    # The generic theory is C35/Property.v; the option table is regenerated from /repo/src/config.rs on every
    # run by lib/c35_extract.py into coq/_cases/C35T/{Table,TableOk}.v, compiled by the pre_cmd.
    # TableOk.v re-exports C35.Property and adds the theorems about the concrete table; when the extracted
    # table is not coherent it does not compile and every theorem below is reported as not discharged.
    "pre_cmd": ["python3", "lib/c35_extract.py", "--build"],
    "module": "_cases.C35T.TableOk",
    "targets": ["C35/Property.vo"],
    "theorems": ["C35_roundtrip", "C35_roundtrip_strict", "C35_cli_within_file", "C35_model_satisfies_spec",
                 "C35_refuted", "C35_unprinted_key_refuted", "C35_wide_cli_refuted", "C35_nonvacuous",
                 "C35_table_coherent", "C35_concrete_roundtrip", "C35_concrete_satisfies_spec"],
    "streams": [{
        "name": "roundtrip", "bin": "c35", "check_module": "_cases.C35T.Table",
        "fn": "(check_case the_table)",
        "model_expr": "model_of the_table CASE",
        "why": {"2": "C35.Spec.spec_okb false: the file printed by Config::to_toml/Display for a configuration the "
                     "command line / config file reader accepted is refused by from_config_file or reads back as a "
                     "different configuration (see impl.reread.differing_keys in the case)"},
    }],
    "level_text": "Theorem over ANY option table whose rows are coherent (printer kind and reader kind inverse, key "
                  "printed at all, command-line range within the reader's range, keys distinct) and every "
                  "configuration with values in the command-line/file ranges (unbounded: all numbers, strings, lists): "
                  "read (print c) = Some c, outside the known class of numbers above i64::MAX (C35_refuted shows the "
                  "class is real). The table of the 60 config keys is re-extracted from src/config.rs on every run and "
                  "its coherence is re-proved by computation (C35_table_coherent), giving C35_concrete_roundtrip for "
                  "the current code. The oracle (printed file accepted and identical configuration) is evaluated on "
                  "the real round trip for every generated command line / config file.",
    "level_note": "Model at the level of TOML bindings (toml_edit's text layer is exercised by the harness, not "
                  "modelled); apply_arg_matches is modelled only by the set of values each option can store. The "
                  "extractor lib/c35_extract.py is in the trusted base; its table is validated against the code by the "
                  "correspondence (printed bindings, re-read configuration, reading of arbitrary files incl. "
                  "malformed ones, every accepted value inside the table's ranges). Non-UTF-8 paths (Path::display "
                  "is lossy) are outside the model: known class 4. `fresh` and `config_file` are excluded from "
                  "'identical' (DESIGN.md section 8; the path the file is read from).",
    "rule": "cases: default; every option alone at the edges of its type and of the ranges involved; every reader kind "
            "at the edges of its range from a file; random command lines (1-8 options) with and without a random base "
            "file; random files; files with one defect (malformed stream); non-UTF-8 paths. distinct = distinct Coq "
            "case term; non-trivial = accepted configuration that differs from the default configuration",
    "assumptions": ["toml_edit: parsing the text it printed gives back the same bindings (exercised by every case)",
                    "IpAddr/SocketAddr: FromStr of the Display text is the identity (supplied per case by the harness "
                    "from the real std functions)",
                    "log::LevelFilter Display/FromStr names (hard-coded in the extractor, exercised by the cases)",
                    "the config file's directory is absolute (routinator joins -c with the absolute current directory)",
                    "unix build (syslog log targets)"],
}
