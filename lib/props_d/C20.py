"""C20 check configuration."""
SPEC = {
    "module": "C20.Property",
    "targets": ["C20/Property.vo"],
    "theorems": ["C20_covers_correct", "C20_lists", "C20_valid_iff", "C20_invalid_iff", "C20_notfound_iff",
                 "C20_matched_exact", "C20_unmatched_as_exact", "C20_unmatched_length_exact", "C20_partition",
                 "C20_disjoint", "C20_positions_disjoint", "C20_reason_lists", "C20_reason_as_iff",
                 "C20_reason_length_iff", "C20_model_satisfies_spec", "C20_spec_sound", "C20_covers_case_sound",
                 "C20_parse_model_ok", "C20_constructed_prefix_wf", "C20_nonvacuous"],
    "streams": [
        {"name": "validity", "bin": "c20", "check_module": "C20.Spec", "env": {"C20_STREAM": "validity"},
         "model_expr": "model_obs (c_route CASE) (c_vrps CASE)",
         "why": {"2": "C20.Spec.spec_okb false on the implementation's answer: the state is not valid/invalid/not-found "
                      "as RFC 6811 prescribes for this route and data set, or matched / unmatched_as / "
                      "unmatched_length do not partition the covering VRPs accordingly, or the reason / description "
                      "does not follow the lists (a state >= 94 encodes: 94 malformed HTTP request not answered 400, "
                      "95 HTTP status not 200, 96 a side check failed (route echo, number of answers, iter_state / "
                      "write_plain disagree with the JSON), 97 panic or reader error, 98 output is not JSON)"}},
        {"name": "prefix", "bin": "c20", "check_module": "C20.Spec", "env": {"C20_STREAM": "prefix"},
         "fn": "check_prefix", "casetype": "pxcase",
         "model_expr": "match CASE with CCov c => (Some (covers (cc_a c) (cc_b c), covers_specb (cc_a c) (cc_b c)), None) "
                       "| CPar c => (None, Some (prefix_new (pc_v4 c) (pc_addr c) (pc_len c), "
                       "prefix_new_relaxed (pc_v4 c) (pc_addr c) (pc_len c))) end",
         "why": {"2": "rpki's Prefix::covers differs from the declarative notion (same family, not longer, first len "
                      "bits equal), or Prefix::from_str / from_str_relaxed accepted / rejected a text against the rule "
                      "(length fits the family; strict: host bits zero) or returned an ill-formed prefix"}},
    ],
    "level_text": "Theorems over all routes and all VRP lists of any length (both families, any item payload): the "
                  "three lists of RouteValidity::new are the order-preserving filters of the data set by three mutually "
                  "exclusive tests; state = valid iff some VRP covers the prefix with the same AS and max length >= "
                  "the route's length, invalid iff some VRP covers and none matches, not-found iff none covers; "
                  "matched is exactly the matching VRPs, unmatched_as / unmatched_length entries are characterised "
                  "exactly, the concatenation of the three lists is a permutation of the covering VRPs, they are "
                  "pairwise disjoint by value and by position; reason and description follow the lists and are "
                  "characterised on the data set. The code's covers test (mask arithmetic on 128 left-aligned bits, "
                  "host-prefix special cases) is proved equal to the RFC notion (same family, length <=, first len "
                  "bits agree) for all well-formed prefixes, and well-formedness is proved of everything the modelled "
                  "Prefix constructors return. The executable oracle is proved sound w.r.t. the declarative property "
                  "and satisfied by the model on every input; it is evaluated inside Coq on the implementation's answer "
                  "for every generated case.",
    "level_note": "Model hand-written from src/validity.rs (RouteValidity::new/state/reason/description) and rpki 0.19.3 "
                  "addr.rs (Prefix::covers, Prefix::new*/Bits helpers, MaxLenPrefix::resolved_max_len). Tie = differential "
                  "run against the real code through the typed API (positions by identity of the &PayloadInfo "
                  "references), RouteValidity::into_json, RequestList::{single,from_plain_reader,from_json_reader}."
                  "validity + write_json/write_plain/iter_state, and GET /api/v1/validity/AS/prefix and "
                  "GET /validity?asn=&prefix= through the real request dispatcher (hook routinator::http::verif, data "
                  "set installed by a real validation cycle from SLURM assertions). Not covered: batch POST /validity "
                  "over a socket (its body type cannot be built without a connection; the RequestList JSON reader and "
                  "writer it calls are covered), the `validate` command-line front end (calls the same RequestList "
                  "functions). The oracle admits either unmatched list for a covering VRP that fails both tests "
                  "(DESIGN.md section 8); the model fixes the code's choice (length first), so a changed tie-break is "
                  "reported as a correspondence failure, not as a failing input. Trusted: Coq kernel, harness, "
                  "srvenv, JSON re-parsing of the rendered answer (VRPs mapped back to positions by value).",
    "rule": "validity: exhaustive small scope (all single VRPs and all VRP pairs over prefixes of length <= 2, max "
            "length <= 2 or absent, two AS numbers, per family), boundary (all 16 subsets of the four covering classes "
            "x lengths 1, 8, max-1, max x both families with non-covering noise; /0 and host routes; empty set), "
            "structured random (0..20 VRPs related to a random route: covering/equal/more specific/sibling/other "
            "family/unrelated, max length around the route's length, duplicates, request batches with decoys, host "
            "bits and bare AS numbers on the HTTP endpoints), 2 large sets, 17 malformed HTTP requests (must be answered 400), "
            "23 malformed plain / JSON request lists (the reader must fail); prefix: all "
            "ordered pairs of prefixes of length <= 3 of both families, boundary lengths (0, 1, 31, 32 / 0, 1, 32, 33, "
            "64, 96, 97, 127, 128) with single flipped bits, same bits in the other family, random truncations / flips, "
            "prefix texts with every length 0..max+2, host bits, over-long lengths; distinct = distinct Coq case term; "
            "non-trivial = at least one VRP covers the route / covers = true / the text is accepted",
    "assumptions": ["the model's input list is snapshot.origins() as the implementation iterates it (the harness reads "
                    "it from the same snapshot object the implementation is given)",
                    "prefixes are well-formed (length within the family, host bits zero): guaranteed by rpki's "
                    "constructors, modelled and checked by the prefix stream and by code 9 in every case",
                    "Asn / Prefix Display and FromStr of the rpki crate round-trip (used to read the rendered JSON)"],
}
