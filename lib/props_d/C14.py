"""C14 check configuration (shares the history harness and oracle with C13)."""
import importlib.util, os
_p = os.path.join(os.path.dirname(os.path.abspath(__file__)), "C13.py")
_s = importlib.util.spec_from_file_location("c13cfg", _p); _m = importlib.util.module_from_spec(_s); _s.loader.exec_module(_m)
SPEC = {
    "module": "C14.Property",
    "targets": ["C14/Property.vo", "C13/Property.vo"],
    "theorems": ["C14_serial_step", "C14_changed_iff", "C14_first_serial_zero", "C14_bounded", "C14_keep_constant",
                 "C14_model_satisfies_spec", "C14_nonvacuous"],
    "streams": [dict(_m._STREAM, name="history14")],
    "level_text": "Theorems for every reachable history and every history-size (0 included, no upper bound): the serial "
                  "moves by exactly one mod 2^32 when an active history receives a different data set and not otherwise, "
                  "the first data set has serial 0, and the number of retained change sets never exceeds "
                  "max(history-size, 1) (invariant by induction over updates). The oracle checks serial stepping and the "
                  "queue length on the implementation after every update.",
    "level_note": "Same model and tie as C13 (src/payload/history.rs after fix: 'keep the delta history bounded'); the queue "
                  "length is observed through the hook verif_delta_count.",
    "rule": _m.SPEC["rule"],
    "assumptions": ["data sets contain route origins only in this stream"],
}
