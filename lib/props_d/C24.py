"""C24 check configuration."""
SPEC = {
    "module": "C24.Property",
    "targets": ["C24/Property.vo"],
    "theorems": ["C24_updated_after_kill_exact", "C24_copy_on_disk", "C24_deltas_from_dirty_copy_exact",
                 "C24_model_satisfies_spec", "C24_refuted", "C24_nonvacuous", "C24_kill_points",
                 "C24_kill_between_remove_and_rename", "C24_needs_honest_files"],
    "streams": [{
        "name": "kills", "bin": "c24", "check_module": "C24.Spec",
        "model_expr": "cmodel_obs (k_cfg CASE) (k_steps CASE) (k_crash CASE)",
        "why": {"2": "C24.Spec.cspec_okb false: after an RRDP update was killed at a kill point, a later run of the "
                     "real collector against the honest fetch server was reported as Updated although the archive "
                     "read back is not the server's snapshot at the notified serial (or a run failed as a whole)"},
    }],
    "level_text": "PARTIAL (kill points at the granularity of one archive operation; a kill inside an archive "
                  "operation, between its storage writes, is not covered). Theorems by induction over runs, deltas "
                  "and delta elements (no bound on histories, delta lists, objects, number of runs): for an honest "
                  "server (consistent history, hash integrity, served delta documents may fail or be cut but never "
                  "carry foreign elements, notified serials never go back, 304 only for the current entity tag), "
                  "whichever run is killed at whichever kill point of a snapshot or (multi-)delta update, every later "
                  "run that completes and is reported as Updated leaves exactly the server's snapshot at the "
                  "notified serial (C24_updated_after_kill_exact); what a kill leaves on disk is characterised "
                  "(C24_copy_on_disk: old state record, content differing from the server's only at objects touched "
                  "by deltas announced since) and following the server's deltas from such a copy either fails or is "
                  "exact (C24_deltas_from_dirty_copy_exact). Without the premise on the files served to the killed "
                  "run the statement is refuted (C24_refuted, known finding F21: a delta document's elements are "
                  "applied before its hash is checked).",
    "level_note": "Model: coq/C25/Model.v (the corrected update algorithm) plus coq/C24/Model.v: the kill points of "
                  "a run in order, each with the copy on disk at that moment, transcribed from the hooks "
                  "crate::verif::kill_point placed before every archive operation of the update in "
                  "src/collector/rrdp/base.rs (not_modified, snapshot_update: begin / remove / rename / renamed, "
                  "delta_update: state, remove_tainted) and src/collector/rrdp/update.rs (SnapshotUpdate publish / "
                  "state, DeltaUpdate publish / update / withdraw); the conditional request is modelled (304 iff "
                  "the stored state has the notified session and serial). Tie: the run to be killed is made by a "
                  "process of its own (c24 crashstep, VERIF_KILL_AT=n) that abort()s at its n-th kill point; the runs "
                  "before and after are made by the worker on the same cache directory against the same fetch "
                  "server (ETag per session+serial, 304 on If-None-Match); compared: the labels of the kill points "
                  "passed, the archive read back after the kill (session, serial, delta hashes, objects), and every "
                  "later run as in C25. Trusted: Coq kernel, harness, fetch server, that what an aborted process "
                  "had written is what the next process reads (process kill, not power loss). Not covered: kills "
                  "inside utils/archive.rs operations (C26 models the archive; no kill points there), two kills in "
                  "one case, archive corruption, dishonest servers (that is C25; C24_needs_honest_files shows what "
                  "a kill adds).",
    "rule": "for 7 (thorough 13) histories and the scenarios first snapshot / 1, 2, 3 deltas / snapshot over an "
            "existing copy / not modified (quick: all scenarios on two histories, two on the others): the honest "
            "run killed at every kill point and once beyond the last, the same with a benign failure in the killed "
            "run (a delta or snapshot file 404/500, a document cut after k elements, a wrong hash announced, "
            "notification error; quick: every 11th), each followed by 2-3 honest runs (sometimes a failing "
            "notification first); 40/1500 random honest walks with failures and a random kill; 3 walks without a "
            "kill (conditional 304); with F21 listed in known_findings.json: 3 cases of the class; distinct = "
            "distinct Coq case term; non-trivial = killed after at least one archive operation and a later run "
            "was Updated",
    "assumptions": ["the premise `honest` (visible in every theorem): consistent history, hash integrity (C25), "
                    "served delta documents carry the history's elements for their serial (all or a prefix), "
                    "notified serials of a session never go back, 304 only for the current entity tag",
                    "one archive operation is atomic with respect to kills; archive storage operations do not fail",
                    "a killed process leaves exactly what its completed archive operations wrote (no power loss)"],
}
