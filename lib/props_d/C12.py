"""C12 check configuration."""
SPEC = {
    "module": "C12.Property",
    "targets": ["C12/Property.vo"],
    "theorems": ["C12_merge_pair", "C12_chain_std", "C12_chain_aspa", "C12_skip_empty_std", "C12_skip_empty_aspa",
                 "C12_catch_up", "C12_merged_is_direct", "C12_model_satisfies_spec", "C12_nonvacuous"],
    "streams": [{
        "name": "merge", "bin": "c12", "check_module": "C12.Spec",
        "model_expr": "model_merged (c_first CASE) (c_rest CASE)",
        "why": {"2": "C12.Spec.spec_okb12 false: folding PayloadDelta::merge over the consecutive change sets does not "
                     "give the actions/counts of the direct change set first->last (or applying it does not reach the last data set)"},
    }],
    "level_text": "Theorems for every sequence of strictly sorted data sets (any length): merge of two consecutive "
                  "change sets equals the direct one (both decision tables, incl. the nine ASPA cases), by induction "
                  "the fold over any number of consecutive change sets equals the direct change set, empty steps are "
                  "neutral, and the catching-up client ends where the step-by-step client ends. The executable oracle "
                  "is proved of the model for all sequences and evaluated on the implementation's output per case.",
    "level_note": "Model hand-written from StandardDelta::merge/AspaDelta::merge (src/payload/delta.rs); tie = "
                  "differential run of PayloadDelta::construct/merge (public API) on generated sequences of 1..10 data "
                  "sets; comparison inside Coq. Trusted: Coq kernel, harness, rank encoding via the rpki crate's Ord.",
    "rule": "cases: 14 explicit merge patterns (add/remove/re-add, all ASPA action pairs), all 729 length-3 sequences "
            "over 9 ASPA data sets, random walks of 2..10 data sets; distinct = distinct Coq case term; non-trivial = "
            "at least two non-empty consecutive change sets were merged",
    "assumptions": ["Ord/Eq of RouteOrigin, RouterKey, Aspa in the rpki crate are consistent total orders",
                    "data sets have unique items/customers (what into_snapshot produces)"],
}
