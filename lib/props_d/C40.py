"""C40 check configuration."""
SPEC = {
    "module": "C40.Property",
    "targets": ["C40/Property.vo"],
    "theorems": ["C40_keeps_unexpired_rsync_tree", "C40_keeps_unexpired_rrdp_tree", "C40_store_exact",
                 "C40_keeps_needed_rsync", "C40_keeps_needed_rrdp", "C40_no_new", "C40_dirty_unchanged",
                 "C40_failed_unchanged", "C40_model_satisfies_spec", "C40_nonvacuous"],
    "streams": [
        {"name": "cleanup", "bin": "c40", "check_module": "C40.Spec",
         "model_expr": "(let m := model_obs (c_ok CASE) (c_ri CASE) (c_before CASE) in (ids (st_rrdp m), ids (st_rsync m), "
                       "modules (co_rsync m), rfiles (co_rsync m), st_tmp m, map fst (st_ta m)), c_ri CASE)",
         "why": {"2": "C40.Spec.spec_okb false: engine::Run::cleanup removed a stored publication point whose manifest "
                      "certificate has not expired, or an rsync module this run tried to update or such a point lives "
                      "in, or removed anything at all although the dirty option was set / the run had failed, or "
                      "created a file"}},
        {"name": "seq", "bin": "c40", "env": {"C40_STREAM": "seq"}, "check_module": "C40.Spec", "fn": "check_seq",
         "casetype": "seq_case",
         "model_expr": "(kept_all (q_before CASE) (q_after CASE), q_ok CASE, q_dirty CASE)",
         "why": {"2": "C40.Spec.check_seq: after ValidationReport::process with the dirty option or with a failed run a "
                      "file / stored point / rsync module that existed before the call is gone"}},
    ],
    "level_text": "Theorems over all caches and runs (any number of stored points in the rsync and RRDP trees of the "
                  "store, any collector directories, any times; no size bound): after a successful run without "
                  "`dirty`, every loadable stored point whose manifest EE certificate has not expired when cleanup "
                  "looks at it survives (exactly the points StoredPoint::retain accepts survive), every rsync module "
                  "that the run tried to update or that such a point (without rpkiNotify) lives in survives, every "
                  "RRDP archive whose repository the run tried or such a point names survives, and nothing is created; "
                  "with `dirty` the cache is unchanged; after a failed run no cleanup happens. The executable oracle "
                  "is proved to hold of the model on every input and is evaluated on the real cache after the real "
                  "cleanup for every generated history.",
    "level_note": "Model hand-written from src/store.rs (Run::cleanup, cleanup_points, cleanup_ta, cleanup_tmp, "
                  "StoredPoint::retain/load_quietly), src/collector/rsync.rs (Run::cleanup, cleanup_host), "
                  "src/collector/rrdp/base.rs (Run::cleanup, cleanup_authority), src/collector/base.rs (Cleanup), "
                  "src/engine.rs (Run::cleanup with the dirty switch) and ValidationReport::process (cleanup only after "
                  "a successful process). Tie, stream cleanup: real histories on real repositories (rpkigen, rsync "
                  "transport); the last run is performed with the statements of ValidationReport::process (engine.start, "
                  "Run::process, Run::cleanup, Run::done) and the cache is listed right before and right after the real "
                  "engine::Run::cleanup; stored files are abstracted with the real readers; the model's resulting file "
                  "set must equal the real one. Stream seq: the real ValidationReport::process, cache before/after "
                  "(oracle only: dirty / failed run remove nothing). Expiry is produced by rewriting the cached "
                  "notAfter field of a real stored point (what retain reads) and, in two cases, by real time passing "
                  "(certificates valid for 4 s). The RRDP collector's cleanup is exercised on archives made by the real "
                  "writer and planted in the collector's directory (current and past their best-before time, named / not "
                  "named by a stored point in the RRDP tree, transport on / off, dirty); no generated CA announces RRDP, so "
                  "archives the run itself updated do not occur (ri_upd_rrdp is empty in every case); pruning of empty directories, non-UTF-8 names and I/O "
                  "errors are not modelled.",
    "rule": "world: 2 TALs, 7 publication points over 5 rsync modules on 4 hosts, one CA whose manifest never "
            "validates (LastAttempt marker), a CA that moves to another repository in version 1 of its parent; classes: "
            "nothing to remove, parent drops a child with stored manifest valid / expired (1..4 points), visited point "
            "with expired cached notAfter, fresh / aged / unvisited markers, junk in every directory, truncated stored "
            "points, module unreachable in the last run, no collector, failed quick initial run, stored point in the "
            "RRDP tree, real expiry after 4 s; each also with dirty where meaningful; 40 (quick) random combinations; "
            "seq: dirty / failed / plain through the real process(). distinct = distinct Coq case term; non-trivial = "
            "cleanup removed something, or the run was dirty or failed",
    "assumptions": ["the abstraction of the cache listing by the harness (ids, host/module names from the stored "
                    "headers via the real parser)",
                    "Time::now() during cleanup is taken as the moment cleanup starts (expiry times in the cases are "
                    "at least 1.5 s away from it)"],
}
