"""C07 check configuration."""
SPEC = {
    "module": "C07.Property",
    "targets": ["C07/Property.vo"],
    "theorems": ["C07_bounded_unfolding", "C07_pruned_tree", "C07_visits_exact", "C07_payload_exact",
                 "C07_deep_and_loops_contribute_nothing", "C07_unchecked_cycle_diverges", "C07_model_satisfies_spec",
                 "C07_nonvacuous"],
    "streams": [{
        "name": "worlds", "bin": "c07", "check_module": "C07.Spec",
        "model_expr": "model_obs (c_in CASE)",
        "why": {"2": "C07.Spec.spec_okb false: the validation run did not return within the watchdog time (o_res 1), the "
                     "process died (o_res 2), the run failed (o_res 3), or the payload / the set of processed publication "
                     "points is not that of the hierarchy pruned at max-ca-depth and at certificates repeating a key of "
                     "their chain"},
    }],
    "level_text": "Theorems over EVERY finite CA graph (cyclic or not, shared sub-hierarchies, key reuse, certificates for "
                  "keys the named point does not sign with), every max-ca-depth d and every list of trust anchors: the "
                  "fuel-recursive transcription of the engine's unfolding (check_loop, validate, CaCert::chain depth check, "
                  "one task per accepted CA certificate) returns the same value for every fuel > d as for fuel d+1 and that "
                  "value is not OutOfFuel (the depth check alone bounds the unfolding); the value is the check-free "
                  "traversal of the pruned tree; a point is processed / a payload item produced exactly if a path of "
                  "valid certificates from a trust anchor leads to it on which no subject key repeats and which has at "
                  "most d certificates; hence chains of processed points are duplicate free and at most d+1 long. Without "
                  "the two checks a two-point cycle exhausts every fuel (proved). The thread pool / task queue of the real "
                  "engine is NOT modelled (partial): termination of the real run is observed under a wall-clock watchdog, "
                  "not proved.",
    "level_note": "Model hand-written from src/engine.rs (Run::process, process_ca_task, PubPoint::process_ca_cer, "
                  "CaCert::chain, CaCert::check_loop); verdicts of the rpki crate enter as one bit per certificate and "
                  "per publication point. Tie = real signed repositories built by rv_harness::rpkigen from the same "
                  "abstract graph, validated by the real Engine over the rsync stand-in on a fresh cache in a watched "
                  "worker process; compared inside Coq: result, payload set, valid/rejected point counts, stored points, "
                  "valid_ca_certs, invalid_certs, number of 'CA depth overrun' log lines. Trusted: Coq kernel, harness, "
                  "rpkigen ground truth (asserted against the case), watchdog time (45 s per case).",
    "rule": "cases: chains of length d-1..d+2 for every limit d in 0..5 (threads 1, and 4 at d+1); eight cycle shapes "
            "(self-issued, own key for another point, two-, three-node, inner cycle, back edge with a fresh key, key reuse "
            "for a new point, cycle with a legitimate tail) x six (limit, threads) pairs over limits {1,2,3,5} and threads {1,4} "
            "(+ limit 32 once); three shared-sub-tree shapes (diamond, two TALs one sub-tree, two certificates one child) x "
            "six such pairs; random graphs "
            "of 2..7 points over 2 rsync modules with back edges, key reuse, wrong keys, broken points, invalid "
            "certificates, 1-2 TALs, limit 0..5 (quick 90, thorough 1500); distinct = distinct Coq case term; "
            "non-trivial = some certificate was skipped (invalid_certs > 0) or the run did not end normally",
    "assumptions": ["every CaTask returned by PubPoint::process is eventually passed to process_ca_task exactly once "
                    "(directly or through the queue) and threads only reorder visits (thread pool not modelled)",
                    "the verdict of validate_ca / check_crl / manifest validation does not depend on the visiting order",
                    "no usize overflow of chain_len (checked_add in the code)"],
}
