"""C04 check configuration."""
_WHY = {"2": "C04.Spec.spec_okb (spec04_okb) false: after some run the stored point read back with "
             "StoredPoint::load_quietly is neither the previous one nor exactly the fetched manifest (which then must "
             "have validated) with exactly its listed files, all present with matching hashes - or it disappeared "
             "although its cached number/thisUpdate agreed with its manifest, or the run failed; or (usable04_okb) the run left a "
             "consistent stored point as it was, its manifest still validates as a stored manifest under the run's policy, "
             "and the payload lacks items of that version's object set (the stored version was not usable for validation)"}
_M = "model_obs (c_base CASE) (c_runs CASE)"
SPEC = {
    "module": "C04.Property",
    "targets": ["C04/Property.vo"],
    "theorems": ["C04_store_changes_only_when_complete", "C04_unchanged_usable", "C04_history_verified",
                 "C04_model_satisfies_spec", "C04_model_satisfies_usable", "C04_nonvacuous"],
    "streams": [
        {"name": "hist", "bin": "c03", "env": {"C03_STREAM": "hist"}, "check_module": "C04.Spec", "model_expr": _M, "why": _WHY},
        {"name": "order", "bin": "c03", "env": {"C03_STREAM": "order"}, "check_module": "C04.Spec", "model_expr": _M, "why": _WHY},
        {"name": "tamper", "bin": "c03", "env": {"C03_STREAM": "tamper"}, "check_module": "C04.Spec", "model_expr": _M, "why": _WHY},
    ],
    "level_text": "Theorems over the model of one publication point across a history of runs (no bound on runs, "
                  "versions, files; every verdict-bit combination, stale policy and iteration order; repaired and "
                  "original code): one run leaves the stored point unchanged, or the fetched manifest passed "
                  "validate_collected_manifest/_crl, every listed file was present with the listed hash and the store "
                  "is exactly that manifest with exactly those files, or - the exception C05 names - an internally "
                  "inconsistent stored copy is discarded (C04_store_changes_only_when_complete); an unchanged store "
                  "yields the same payload afterwards (C04_unchanged_usable); by induction over histories from an "
                  "empty store every stored point is such a verified, complete manifest with cached fields equal to "
                  "its own (C04_history_verified); the executable oracle holds of the model on every well-formed "
                  "history and is evaluated on the real store content after every run of every generated history.",
    "level_note": "Shared model coq/C03/Model.v (see C03). Tie: real signed repositories (rv_harness::rpkigen), the "
                  "real Engine over the rsync transport on a persistent cache; after each run the stored point is read "
                  "back with StoredPoint::load_quietly (cached manifest number, thisUpdate, SHA-256 of the stored "
                  "manifest, object URIs) and compared with the model inside Coq; stream `tamper` rewrites the stored "
                  "file with other cached number/thisUpdate (StoredManifest::write, add-only hook "
                  "StoredPointHeader::verif_from_parts) to reach StoredPoint::reject. The atomicity of the temp-file "
                  "+ rename update under crashes is C23's subject, not modelled here. RRDP transport not exercised.",
    "rule": "hist: manifest number x thisUpdate grid, every manifest fault (bad signature, bad content signature, "
            "expired/not-yet-valid/revoked EE, wrong CRL URI, garbage, stale, premature, missing) x stale policies, "
            "every CRL fault (bad signature, hash mismatch, missing, unlisted, garbage, stale), stale copy under changing "
            "policy, unreachable repository, no collector, nothing served, incomplete versions, non-aborting object "
            "faults, random 3-version histories; order: aborts at every position; tamper: cached fields above/below/"
            "equal to the fetched manifest's x complete/incomplete fetch, same manifest, invalid manifest, no "
            "collector, random. distinct = distinct Coq case term; non-trivial as in C03",
    "assumptions": ["the verdict bits of the generator's ground truth are what the rpki crate decides",
                    "CA certificate, caRepository and `strict` constant over the history; no verdict flips during a check",
                    "store files change between runs only through the engine or the modelled tampering"],
}
