"""C05 check configuration."""
_WHY = {"2": "C05.Spec.spec_okb (spec05_okb) false: the stored point changed although the previous copy was consistent "
             "and the new manifest number / thisUpdate are not both strictly greater (rollback or disappearance), or "
             "the run failed"}
_M = "model_obs (c_base CASE) (c_runs CASE)"
SPEC = {
    "module": "C05.Property",
    "targets": ["C05/Property.vo"],
    "theorems": ["C05_replace_only_if_newer", "C05_replay", "C05_history_consistent", "C05_history_monotone",
                 "C05_final_state_is_last", "C05_inconsistent_discarded", "C05_model_satisfies_spec", "C05_nonvacuous"],
    "streams": [
        {"name": "hist", "bin": "c03", "env": {"C03_STREAM": "hist"}, "check_module": "C05.Spec", "model_expr": _M, "why": _WHY},
        {"name": "tamper", "bin": "c03", "env": {"C03_STREAM": "tamper"}, "check_module": "C05.Spec", "model_expr": _M, "why": _WHY},
    ],
    "level_text": "Theorems over the model of one publication point across histories of any length: a consistent "
                  "stored copy stays or is replaced by one whose manifest number AND thisUpdate are both strictly "
                  "greater, and never disappears (C05_replace_only_if_newer); a replayed or reordered manifest that "
                  "is not strictly newer in both fields changes neither store nor payload (C05_replay); consistency "
                  "is a history invariant, so the discard branch is unreachable from an empty store "
                  "(C05_history_consistent), and between any two points of any history number and thisUpdate never "
                  "decrease (C05_history_monotone, by induction); the exception for an inconsistent stored copy is "
                  "characterised exactly (C05_inconsistent_discarded); the executable oracle holds of the model on "
                  "every well-formed history and is evaluated on the real store content after every run.",
    "level_note": "Shared model coq/C03/Model.v (check_collected_is_newer transcribed branch by branch, including the "
                  "fall-through to stored.reject()). Tie as C04: real Engine runs over real signed manifests with "
                  "numbers/thisUpdate increasing, equal, decreasing, mixed, and replays of earlier versions; the "
                  "`tamper` stream makes the cached fields disagree with the stored manifest. Manifest numbers are "
                  "small integers (the 20-octet Serial comparison of the rpki crate is trusted).",
    "rule": "hist: stored (5,t5) vs fetched number in {-1,0,+1,+3} x thisUpdate in {-1,0,+1,+2} followed by a replay of "
            "the first version; faults on the newer version; unreachable repository; random histories over 3 versions "
            "with numbers 1..4 and times 0..3 served in random order with repeats; tamper: cached number/thisUpdate "
            "above, equal, below the fetched ones x complete/incomplete. distinct = distinct Coq case term; "
            "non-trivial as in C03",
    "assumptions": ["the verdict bits of the generator's ground truth are what the rpki crate decides",
                    "Serial (manifest number) and Time comparison of the rpki crate are the integer orders",
                    "CA certificate, caRepository and `strict` constant over the history"],
}
