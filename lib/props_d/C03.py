"""C03 check configuration."""
_WHY = {"2": "C03.Spec.spec03_okb false: after some run the payload is not (rest of the world) + the payload of ONE "
             "object set - nothing, the stored version's objects, or the fetched version's listed files when that "
             "version validated and was complete (e.g. items of an abandoned fetched manifest next to the stored "
             "objects), or the run failed"}
SPEC = {
    "module": "C03.Property",
    "targets": ["C03/Property.vo"],
    "theorems": ["C03_exact", "C03_one_object_set", "C03_order_irrelevant", "C03_order_invariant",
                 "C03_unfixed_refuted", "C03_unfixed_oracle_false", "C03_model_satisfies_spec", "C03_nonvacuous"],
    "streams": [
        {"name": "order", "bin": "c03", "env": {"C03_STREAM": "order"}, "check_module": "C03.Spec",
         "model_expr": "model_obs (c_base CASE) (c_runs CASE)", "why": _WHY},
        {"name": "hist", "bin": "c03", "env": {"C03_STREAM": "hist"}, "check_module": "C03.Spec",
         "model_expr": "model_obs (c_base CASE) (c_runs CASE)", "why": _WHY},
    ],
    "level_text": "Theorems over the model of one publication point across a history of runs (any number of runs, "
                  "versions and files, any verdict bits, any stale policy, every permutation of the manifest entries "
                  "and hence every position of the first missing or hash-mismatching file): on a fetched manifest the "
                  "repaired PubPoint::process either adopts it (it validated, was newer, every listed file present "
                  "with the listed hash) and contributes exactly the payload of its listed files, or contributes "
                  "exactly what the stored point yields with an empty processor (C03_exact, C03_one_object_set); the "
                  "iteration order is unobservable (C03_order_irrelevant, C03_order_invariant); the code as found "
                  "mixes the two sets (C03_unfixed_refuted, witness replayed on /repo and kept as corpus); the "
                  "executable oracle holds of the model on every well-formed history and is evaluated on the real "
                  "engine's payload after every run of every generated history.",
    "level_note": "Model hand-written from src/engine.rs (PubPoint::process, process_collected, "
                  "validate_collected_manifest/_crl, check_collected_is_newer, process_stored, "
                  "validate_stored_manifest), src/store.rs (StoredPoint::update/_update/reject) and "
                  "src/payload/validation.rs (PubPointProcessor accumulate/restart/commit/cancel); the rpki crate's "
                  "decisions are verdict bits taken from the generator's ground truth. Tie: real signed repositories "
                  "(rv_harness::rpkigen), the real Engine run once per run of the history over the rsync transport on "
                  "one persistent cache; payload and stored point compared with the model inside Coq. In stream "
                  "`order` the manifest iteration order is chosen through the add-only cfg(routinator_verif) hook "
                  "verif_c03::order; in stream `hist` the engine shuffles itself (justified by C03_order_invariant). "
                  "Defect F1 found and fixed in /repo (src/engine.rs: `this.processor.restart()?` before the "
                  "fallback); with the fix reverse-applied the corpus cases are reported as VIOLATION. Not covered: "
                  "child CAs of the point other than one constant fault-free grandchild; "
                  "PubPointProcessor.validity/point_stale (publish info, not payload) still carry the abandoned "
                  "manifest's validity after restart(); RRDP transport; the process_object -> false branch (dead "
                  "code: process_object returns Ok(true) on every path).",
    "rule": "order: aborted update (Missing / HashMismatch) with the faulty file and the new ROA at every relative "
            "position (all 24 orders in the thorough tier) followed by a run without collector; aborted update with "
            "nothing stored; ASPA / router key / two-prefix ROA / GBR / child CA certificate processed before the "
            "abort, child and TA layout; complete update under all orders; random versions with random faults and "
            "random orders. hist: manifest number x thisUpdate grid, every manifest fault x policies, every CRL "
            "fault, stale stored copy under changing policy, faults on the first version, unreachable repository, no "
            "collector, nothing served, incomplete versions under the engine's own shuffle, non-aborting object "
            "faults, random 3-version histories. distinct = distinct Coq case term; non-trivial = some run saw an "
            "incomplete or invalid fetched version, an unreachable repository or tampering",
    "assumptions": ["the verdict bits of the generator's ground truth are what the rpki crate decides (a wrong bit shows "
                    "as a correspondence break)",
                    "the CA certificate of the point, its caRepository and the `strict` setting are constant over the "
                    "history; verdicts do not flip during a check (all time boundaries are an hour away from now)",
                    "the payload of the rest of the world (constant fault-free parent CA) is constant",
                    "store files are not corrupted between runs other than by the modelled tampering of the cached "
                    "manifest number / thisUpdate (C23/C27 cover corruption)"],
}
