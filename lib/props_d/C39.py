"""C39 check configuration."""
SPEC = {
    "module": "C39.Property",
    "targets": ["C39/Property.vo"],
    "theorems": ["C39_deadline_bound", "C39_deadline_exists", "C39_deadline_attained", "C39_deadline_exact",
                 "C39_order_irrelevant", "C39_model_satisfies_spec", "C39_spec_sound", "C39_nonvacuous"],
    "streams": [{
        "name": "refresh", "bin": "c39", "check_module": "C39.Spec",
        "model_expr": "(model_obs (c_cfg CASE) (c_tals CASE), all_bounds (c_cfg CASE) (c_tals CASE))",
        "why": {"2": "C39.Spec.spec_okb false: PayloadSnapshot::refresh() of the real run is later than a notAfter / "
                     "nextUpdate on the chain of an object that contributed payload (or than the object's own "
                     "expiry), or payload was produced without any deadline"},
    }],
    "level_text": "Theorems over all validated trees (any number of trust anchors, any depth, any objects, any "
                  "processing order, no size bound): the deadline the engine attaches to a data set is no later than, "
                  "for every object that contributed payload, the object's own certificate notAfter and - for every "
                  "CA from its publication point up to the trust anchor - the CRL nextUpdate, the manifest "
                  "nextUpdate, the manifest EE certificate notAfter and the CA/TA certificate notAfter; a data set "
                  "with payload has a deadline; the deadline equals an order-free expression, so the random order in "
                  "which the engine processes a publication point's objects cannot change it. The executable oracle "
                  "is proved to hold of the model on every input and is evaluated on the deadline of a real engine "
                  "run for every generated repository.",
    "level_note": "Model hand-written from src/payload/validation.rs (PubPoint::new_ta/new_ca/update_refresh, "
                  "PubPointProcessor::point_validity/process_ca/process_roa/process_aspa/process_router_cert/commit, "
                  "SnapshotBuilder::update_refresh) and src/engine.rs (ValidPointManifest::point_validity, the object "
                  "loop). It starts from the validated tree (which objects reached the processor); validation itself "
                  "is outside. Tie = end-to-end: real signed repositories (rpkigen) fetched through the rsync "
                  "transport and validated by the real Engine; the validated tree is derived from the generator's "
                  "ground truth by the harness (trusted, same rules as rpkigen::expected_fresh). Not modelled / not "
                  "tied: the aborted-update path (collected update aborted, stored version processed on the same "
                  "processor), RRDP transport, what consumers do with the deadline (SharedHistory::mark_update_done).",
    "rule": "every expiry time (TA cert, each CA cert, each manifest EE cert, manifest nextUpdate, CRL nextUpdate, "
            "each object's certificate) in turn made the unique minimum on trees of depth 1, 2 (two TALs) and 3 "
            "(ROAs, ASPA, router certificates, GBR, unknown file, empty sibling CA, three rsync modules on two "
            "hosts); boundary classes: object types switched off, ROA with all prefixes over the length limit, empty "
            "CA / rejected CA / invalid object carrying the earliest time, stale manifest or CRL accepted by policy "
            "(deadline in the past), validation from the store (second run), no payload at all; 60 (quick) / 400 "
            "random trees with random times, switches, 1 or 4 validation threads and an occasional object or "
            "manifest fault. distinct = distinct Coq case term; non-trivial = the run produced a deadline and at "
            "least one object contributed",
    "assumptions": ["the validated tree given to the model is what the engine validated (harness abstraction of the "
                    "generator's ground truth; a mismatch shows up as a correspondence break, not silently)",
                    "times are whole seconds (X.509 / manifest times are)"],
}
