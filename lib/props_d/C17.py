"""C17 check configuration."""
SPEC = {
    "module": "C17.Property",
    "targets": ["C17/Property.vo"],
    "theorems": ["C17_blocks_only_while_current", "C17_wakeup_finishes", "C17_old_order_refuted", "C17_model_satisfies_spec", "C17_nonvacuous"],
    "streams": [{
        "name": "notify", "bin": "c17", "check_module": "C17.Spec",
        "model_expr": "model_final CASE",
        "why": {"2": "the /json-delta/notify handler is blocked although the served version differs from the presented "
                     "one and no notification is pending (lost wake-up), or it reported an impossible serial"},
    }],
    "level_text": "Invariant proof over ALL interleavings (any number of validation cycles, any placement of the "
                  "handler's steps): with subscribe-before-check, whenever the handler is waiting and the served "
                  "version differs from the presented one a wake-up is already delivered or the writer's notify is "
                  "still to come, so it blocks only while the presented version is current; the pre-fix ordering is "
                  "refuted by a 4-event witness. Partial: the proof is about the model; that tokio's broadcast channel "
                  "delivers every send to receivers created before it, and that the executor re-polls a woken task, "
                  "are assumptions. The correspondence replays the schedules on the real handler and the real "
                  "process_once with rendezvous hooks.",
    "level_note": "Model: src/http/delta.rs handle_notify_get_or_head (after fix: subscribe before need_wait) and "
                  "src/operation.rs process_once (install, mark done, notify). Tie: real dispatcher (hook "
                  "routinator::http::verif), real Server::process_once (hook verif_process_once) stopped at hook points "
                  "server.updated and http.notify.checked; the handler future is polled by hand with a counting waker "
                  "(no timeouts used as oracle).",
    "rule": "all interleavings of 0..2 validation cycles (install, notify) with the handler sequence start/poll/poll/poll "
            "that end with a poll, for presented version in {current, older, none, foreign session}, plus 10 random with "
            "1..4 earlier versions; distinct = distinct Coq case term; non-trivial = at least one cycle interleaved and a "
            "version of the own session presented",
    "assumptions": ["tokio broadcast: a receiver sees every send after its creation", "executor re-polls woken tasks",
                    "single validation thread"],
}
