"""C34 check configuration."""
SPEC = {
    "module": "C34.Property",
    "targets": ["C34/Property.vo"],
    "theorems": ["C34_no_min_refresh", "C34_bounds", "C34_formula", "C34_model_satisfies_spec", "C34_nonvacuous"],
    "streams": [{
        "name": "wait", "bin": "c34", "check_module": "C34.Spec", "model_expr": "(model_lo CASE, model_hi CASE)",
        "why": {"2": "the wait before the next validation run is shorter than min-refresh (refresh when unset), longer than "
                     "the larger of the two, or not brought forward to the data set's refresh deadline"},
    }],
    "level_text": "Theorems for all refresh / min-refresh values, deadlines and clock readings (integers, no bound): with "
                  "min-refresh unset the wait is exactly refresh; with it set the wait lies in [min-refresh, max(refresh, "
                  "min-refresh)] and equals max(min-refresh, time left until min(completion + refresh, deadline)). The "
                  "real mark_update_done/refresh_wait are run on a grid of boundary values and random values; the system "
                  "clock is bracketed, the observed wait must lie between the model's values at both ends of the bracket.",
    "level_note": "Model of PayloadHistory::refresh_wait and the next_update_start computation in mark_update_done "
                  "(src/payload/history.rs). Scope: refresh values for which now + refresh is representable (SystemTime "
                  "addition panics otherwise; see DESIGN.md section 8). Hook verif_replace_current installs a data set with a "
                  "chosen refresh deadline. The server loop's use of the value (Server::run: initial run -> 0) is read, not tied.",
    "rule": "grid: refresh in {0,1,59,60,600,601,86400} s x min-refresh in {unset,0,1,60,600,3600} s x deadline in {none, "
            "-3600,-1,0,30,60,599,600,90000} s after completion (378 cases), plus 200 random; distinct = distinct Coq case "
            "term; non-trivial = min-refresh and a deadline both set",
    "assumptions": ["the system clock does not go backwards between mark_update_done and refresh_wait"],
}
