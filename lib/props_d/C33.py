"""C33 check configuration."""
import importlib.util, os
_p = os.path.join(os.path.dirname(os.path.abspath(__file__)), "C15.py")
_s = importlib.util.spec_from_file_location("c15cfg", _p); _m = importlib.util.module_from_spec(_s); _s.loader.exec_module(_m)
SPEC = {
    "module": "C33.Property",
    "targets": ["C33/Property.vo", "C33/NotifySpec.vo"],
    "theorems": ["C33_failed_run_changes_nothing", "C33_failures_erased", "C33_model_satisfies_spec",
                 "C33_fatal_error_fails_run", "C33_successful_run_is_complete", "C33_old_tal_failure_refuted", "C33_nonvacuous"],
    "streams": [dict(_m.STREAM, name="srv33"),
                {"name": "iofaults", "bin": "c33", "check_module": "C33.FaultSpec", "fn": "check_fcase", "casetype": "fcase",
                 "why": {"2": "C33.FaultSpec.fspec_okb false: a validation run on a cache with a planted local I/O fault (a "
                              "directory where a file is expected or the other way round, which utils::fatal reports as a "
                              "fatal error) ended successfully with a payload different from the run without the fault: a "
                              "run that hit a fatal error did not fail, so its partial data set would be served"}},
                {"name": "notify", "bin": "c32", "check_module": "C33.NotifySpec", "fn": "check_ncase", "casetype": "ncase",
                 "env": {"C32_STREAM": "notify"},
                 "why": {"2": "C33.NotifySpec.check_ncase: the real Server::run (child process, forced run outcomes, no TALs so "
                              "that the data set never changes after the first successful run) sent a Serial Notify to an RTR "
                              "client that was already synchronised: a failed (or unchanged) run sent a notification "
                              "(oracle-only stream, no model)"}}],
    "level_text": "Theorems: a failed validation cycle leaves the entire served state unchanged, and for every history of "
                  "successful and failed runs the served state equals that of the history with the failures erased "
                  "(induction over the history). On the implementation, failed runs (retryable and fatal, forced at "
                  "ValidationReport::process) are interleaved with successful ones; after each, all reader operations must "
                  "answer as before and no notification may be pending. The premise side - a run during which a fatal "
                  "error occurs is a run that fails - is a theorem over the task loop of Run::process (any forest of TAL "
                  "and CA tasks, any deferred children, one validation thread; which task fails is an input): the result "
                  "is a failure exactly when some task fails and a successful run processed every publication point; the "
                  "stream `iofaults` plants local I/O faults in the cache of the real engine/store/collector on generated "
                  "repositories and requires a run that ends successfully to have the payload of the fault-free twin run "
                  "(this found the defect repaired by 'fix: fail the run when a trust anchor cannot be loaded or stored'). A third, "
                  "oracle-only stream (`notify`, no model) runs the real Server::run in a child process with an RTR client "
                  "inside it and counts the Serial Notify PDUs sent after the client is synchronised: exactly the first "
                  "run's, none for failed or unchanged runs.",
    "level_note": "Model: process_once returns before update() when the run fails (src/operation.rs). Tie: real "
                  "Server::process_once with the run outcome forced by the hook at the top of ValidationReport::process; "
                  "observables: RTR state and data, /json ETag + Last-Modified + body, /json-delta, pending notification.",
    "rule": _m.RULE + "; iofaults: 3 repository shapes (children in the trust anchor's rsync module / in modules of their "
            "own = deferred tasks / a grandchild and a shared second module) x 1 and 4 validation threads x trust anchor "
            "certificate served or withheld in the second run x no / one CA with a new version x 6 fault kinds (stored TA "
            "certificate is a directory, stored/ta is a file, stored/tmp is a file, the stored point of each CA is a "
            "directory, the directory of the stored point of each CA is a file, none); non-trivial = a task hits the fault",
    "assumptions": ["mark_update_start only touches last_update_start (not observable through the data endpoints)"],
}
