"""C33 check configuration."""
import importlib.util, os
_p = os.path.join(os.path.dirname(os.path.abspath(__file__)), "C15.py")
_s = importlib.util.spec_from_file_location("c15cfg", _p); _m = importlib.util.module_from_spec(_s); _s.loader.exec_module(_m)
SPEC = {
    "module": "C33.Property",
    "targets": ["C33/Property.vo"],
    "theorems": ["C33_failed_run_changes_nothing", "C33_failures_erased", "C33_model_satisfies_spec", "C33_nonvacuous"],
    "streams": [dict(_m.STREAM, name="srv33")],
    "level_text": "Theorems: a failed validation cycle leaves the entire served state unchanged, and for every history of "
                  "successful and failed runs the served state equals that of the history with the failures erased "
                  "(induction over the history). On the implementation, failed runs (retryable and fatal, forced at "
                  "ValidationReport::process) are interleaved with successful ones; after each, all reader operations must "
                  "answer as before and no notification may be pending.",
    "level_note": "Model: process_once returns before update() when the run fails (src/operation.rs). Tie: real "
                  "Server::process_once with the run outcome forced by the hook at the top of ValidationReport::process; "
                  "observables: RTR state and data, /json ETag + Last-Modified + body, /json-delta, pending notification.",
    "rule": _m.RULE,
    "assumptions": ["mark_update_start only touches last_update_start (not observable through the data endpoints)"],
}
