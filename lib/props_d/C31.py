"""C31 check configuration."""
SPEC = {
    "module": "C31.Property",
    "targets": ["C31/Property.vo"],
    "theorems": ["C31_classification", "C31_gate_closed", "C31_gate_open", "C31_run_never_fetches_dubious",
                 "C31_run_allowed_fetches", "C31_run_characterised", "C31_ipv6_needs_colon",
                 "C31_ipv4_literal_parses", "C31_specb_sound", "C31_model_satisfies_spec",
                 "C31_model_satisfies_run_spec", "C31_unfixed_refuted", "C31_nonvacuous"],
    "streams": [
        {"name": "classify", "bin": "c31", "check_module": "C31.Spec", "env": {"C31_STREAM": "classify"},
         "model_expr": "model_obs (c_scheme CASE) (c_uri CASE)",
         "why": {"2": "C31.Spec.spec_okb false: has_dubious_authority() answered false for a URI whose host is "
                      "'localhost' (any case), an IP address literal, or carries an explicit port"}},
        {"name": "gates", "bin": "c31", "check_module": "C31.Spec", "env": {"C31_STREAM": "gates"},
         "fn": "check_run", "casetype": "rcase",
         "model_expr": "model_run_obs (rc_scheme CASE) (rc_allow CASE) (rc_uris CASE)",
         "why": {"2": "C31.Spec.run_spec_okb false: with allow-dubious-hosts off the collector started an rsync / "
                      "RRDP request for a URI whose host is 'localhost', an IP literal or has a port (or, with "
                      "the option on, did not start the first request for a module / repository)"}},
    ],
    "level_text": "Theorems over all byte strings (no length bound): every authority that is 'localhost' in any "
                  "letter case, has an explicit port, or is an RFC 3986 IPv4 / RFC 4291 IPv6 literal is classified "
                  "dubious by the model of has_dubious_authority (which contains a transcription of Rust std's "
                  "IpAddr parser); for every run over any list of URIs the rsync and RRDP gates start no fetch "
                  "for such a URI when dubious hosts are not allowed, and fetch when they are; the executable "
                  "oracles are proved of the model and evaluated on the implementation's observations.",
    "level_note": "Model hand-written from src/utils/uri.rs (fixed: case-insensitive 'localhost'), "
                  "core::net::parser, collector/rsync.rs Run::load_module, collector/rrdp/base.rs "
                  "Run::load_repository. Tie: public UriExt::has_dubious_authority + rpki URI parsers + "
                  "IpAddr::from_str on generated URIs; rsync gate end to end through collector::Collector "
                  "(public API) with a logging fake rsync command; RRDP gate through the cfg hook "
                  "Config::verif_rrdp_loader (real Run::load_repository) with a logging HTTP proxy. Trusted: Coq "
                  "kernel, harness. Legacy numeric host forms (2130706433, 127.1, 01.2.3.4, trailing dot) are "
                  "outside the property's list (DESIGN.md section 8) and not flagged by the code.",
    "rule": "classify: every authority of length<=4 over {0,1,2,.,:,a} for both schemes, all 512 case variants of "
            "'localhost', ~110 boundary authorities from the proof's case splits, one-octet-at-a-time sweeps, "
            "3000 random authorities (names, dotted quads with leading zeros / out-of-range / wrong counts, "
            "IPv6 forms, ports), ~400 malformed URIs; gates: runs of 1..27 URIs with repeated modules, both "
            "settings; distinct = distinct Coq case term; non-trivial = URI accepted by the parser (classify), "
            "run with at least one fetch and (filter on) one refusal (gates)",
    "assumptions": ["the fake rsync command / logging proxy see every request the collectors start (rsync is run "
                    "only through config.rsync_command, HTTPS only through the configured proxy)",
                    "IP literal = RFC 3986 IPv4address / RFC 4291 text form; WHATWG legacy numeric hosts excluded "
                    "(DESIGN.md section 8)"],
}
