"""C10 check configuration."""
SPEC = {
    "module": "C10.Property",
    "targets": ["C10/Property.vo"],
    "theorems": ["C10_used_only_if_bound", "C10_first_usable_wins", "C10_undecodable_never_replaces",
                 "C10_store_changes_only_by_decodable_download", "C10_stored_copy_used_when_download_fails",
                 "C10_all_uris_fail_iff_nothing", "C10_store_never_holds_undecodable", "C10_model_satisfies_spec",
                 "C10_nonvacuous"],
    "streams": [{
        "name": "tals", "bin": "c10", "check_module": "C10.Spec",
        "model_expr": "model_obs (c_cat CASE) (c_runs CASE)",
        "why": {"2": "C10.Spec.spec_okb false in some run: payload came from a trust anchor certificate that is not what "
                     "load_ta yields for its URI / whose key is not the TAL key / that does not validate; or the TAL "
                     "contributed nothing although a URI had a usable download or stored copy; or a stored trust anchor "
                     "file is neither the previous one nor a decodable download of this run"},
    }],
    "level_text": "Theorems over every number of TAL URIs, every served file and every store content: the certificate "
                  "process_tal_task uses decodes, has the TAL's key and validates, and is this run's download of its URI "
                  "or -- only if there is no collector, no file or an undecodable file -- the stored copy; the URI used is "
                  "exactly the first whose effective certificate is usable; an undecodable download never replaces the "
                  "stored copy and a stored file changes only into a decodable download; a usable stored copy is used when "
                  "the download fails and no earlier URI is usable; the TAL contributes nothing iff no URI yields a usable "
                  "certificate; over histories from an empty store (with cleanup_ta) every stored file decodes.",
    "level_note": "Model hand-written from src/engine.rs (process_tal_task, load_ta) and src/store.rs (load_ta, update_ta, "
                  "cleanup_ta); rpki's verdicts (decode, key equality, validate_ta, notAfter) are bits per certificate taken "
                  "from the generator's ground truth. Tie = one TAL with 1..3 rsync URIs (own modules), real certificates "
                  "built by rv_harness::rpkigen, histories of 2..3 real Engine runs on one cache; every certificate names "
                  "its own publication point and ROA, so the payload identifies the certificate used; the stored file of "
                  "every URI is read back from <cache>/stored/ta after every run and identified by its bytes. Note: a "
                  "download that decodes but has the wrong key or is expired DOES replace the stored copy (update_ta "
                  "precedes the key check) -- allowed by the property text, modelled and observed. Unreachable rsync "
                  "modules (stale collector copy) are not exercised; 'download fails' = no file, undecodable file, or no "
                  "collector.",
    "rule": "cases: one URI: every ordered pair of {good, wrongkey, garbage, missing, expired, badsig} over two runs with "
            "and without cleanup, each kind followed by a run without collector, 12 three-step histories (good-garbage-"
            "missing, ...) with and without cleanup; two URIs: every pair of kinds, then all missing; random 1..3 URIs x "
            "2..3 steps incl. notyet and unchanged files, random collector/dirty/threads flags (quick 50, thorough 1500); "
            "distinct = distinct Coq case term; non-trivial = some run used a stored (not currently served) certificate "
            "or nothing",
    "assumptions": ["verdict bits of a certificate do not change during a history (times >= 1 h from now)",
                    "the trust anchor modules hold nothing else; the publication points' module is always reachable",
                    "process_ta of the payload processor accepts every TAL (no TAL filtering configured)"],
}
