"""C08 check configuration."""
SPEC = {
    "module": "C08.Property",
    "targets": ["C08/Property.vo"],
    "theorems": ["C08_reject_no_overlap", "C08_reject_removes_only_overlapping", "C08_lenient_removes_nothing",
                 "C08_lenient_identity", "C08_assertions_exempt", "C08_keep_prefix", "C08_unsafe_is_common_address",
                 "C08_candidates", "C08_model_satisfies_spec", "C08_nonvacuous"],
    "streams": [
        {"name": "unsafe", "bin": "c09", "env": {"C09_STREAM": "unsafe"}, "check_module": "C08.Spec",
         "fn": "check_case08", "model_expr": "run (c_in CASE)",
         "why": {"2": "C08.Spec.spec08_okb false: under `reject` a served VRP overlaps a non-/0 address block of a "
                      "rejected CA without being a SLURM assertion, or a non-overlapping VRP was removed; under "
                      "`warn`/`accept` a VRP was removed because of rejected resources; or the call panicked"}},
        {"name": "blocks", "bin": "c09", "env": {"C09_STREAM": "blocks"}, "check_module": "C09.Spec",
         "fn": "check_blocks", "casetype": "blocks_case",
         "model_expr": "map (keep_prefix (finalize (flat_map extend_from_cert (bc_certs CASE)))) (bc_pfxs CASE)"},
    ],
    "level_text": "Theorems over all inputs (any publication points, any set of rejected CAs with any address blocks, "
                  "any SLURM data; no size bound): with `reject` every served VRP either does not overlap any non-/0 "
                  "block of a rejected CA or is a SLURM assertion, and every validated VRP that does not overlap "
                  "(and passes the length limit and SLURM filters) is served; with `warn`/`accept` the data set "
                  "equals that of the same run with no CA rejected. Overlap is proved to mean a common address. The "
                  "executable oracle is proved to hold of the model on every input and is evaluated on the "
                  "implementation's snapshot for every generated case.",
    "level_note": "Same model as C09 (coq/C09/Model.v). SLURM assertions are inserted after the filter "
                  "(insert_assertions) and are therefore served even if they overlap rejected resources: stated as "
                  "C08_assertions_exempt. `Whole-address-family block` is what the code tests: an IpBlock::Prefix of "
                  "length 0 (a range 0..max is not exempt, but the rpki decoder canonicalises such a range to /0). "
                  "Tie: rejected CAs through the real PubPointProcessor::cancel on CA certificates (rpki fixtures "
                  "ta.cer / ca1.cer and certificates made and signed by the harness) or the hook verif_reject (plain, "
                  "possibly non-canonical blocks; it repeats extend_from_cert's filter on plain blocks), VRPs through "
                  "real signed ROAs; the overlap test (normalisation + intersects_block) has its own stream.",
    "rule": "unsafe: 16 VRP prefixes (incl. /0, /32, /128, first/last address of each family) x 22 relations of one "
            "rejected block (equal, covering, nested, inner range, touching first/last address, single address, "
            "adjacent below/above, straddling, /0, whole family as range, same numbers in the other family, other "
            "family /0 and whole range) x policies; combined cases (unsafe VRP also asserted / assertion overlapping / "
            "SLURM filter / duplicates / real fixture CA certificates); 250 (quick) random cases over clustered "
            "prefixes and blocks. blocks: see C09. non-trivial = the implementation marked at least one VRP unsafe "
            "or removed/added something",
    "assumptions": ["blocks are well-formed (min <= max, canonical prefixes), as the rpki decoder yields them",
                    "IPv4 addresses are left-aligned in 128 bits by the implementation; the model uses the natural "
                    "width (order-preserving embedding done by the harness the way the rpki decoder does it)"],
}
