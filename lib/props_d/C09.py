"""C09 check configuration."""
_WHY = {"2": "C09.Spec.spec_okb false: the snapshot ValidationReport::into_snapshot returned is not (validated origins "
             "minus too long, minus unsafe under reject, minus SLURM-filtered) plus SLURM assertions with every item "
             "once / router keys or ASPAs are not the per-ASN keys resp. per-customer provider unions (dropped iff "
             "larger than 16380) / the call panicked"}
SPEC = {
    "module": "C09.Property",
    "targets": ["C09/Property.vo"],
    "theorems": ["C09_origins_exact", "C09_origins_once", "C09_keys_exact", "C09_keys_once", "C09_aspas_exact",
                 "C09_aspas_sorted", "C09_union_members", "C09_aspa_objects", "C09_union_sorted", "C09_too_long",
                 "C09_covers_is_inclusion", "C09_model_satisfies_spec", "C09_nonvacuous"],
    "streams": [
        {"name": "compose", "bin": "c09", "env": {"C09_STREAM": "compose"}, "check_module": "C09.Spec",
         "model_expr": "run (c_in CASE)", "why": _WHY},
        {"name": "slurm", "bin": "c09", "env": {"C09_STREAM": "slurm"}, "check_module": "C09.Spec",
         "fn": "check_slurm", "casetype": "slurm_case",
         "model_expr": "(map (drop_origin (sc_slurm CASE)) (sc_origins CASE), map (drop_key (sc_slurm CASE)) (sc_keys CASE))"},
        {"name": "blocks", "bin": "c09", "env": {"C09_STREAM": "blocks"}, "check_module": "C09.Spec",
         "fn": "check_blocks", "casetype": "blocks_case",
         "model_expr": "map (keep_prefix (finalize (flat_map extend_from_cert (bc_certs CASE)))) (bc_pfxs CASE)"},
    ],
    "level_text": "Theorems over all inputs (any number of publication points, ROAs, router certificates and ASPA "
                  "objects, duplicates across points/TALs, any rejected CAs, any SLURM filters/assertions, every "
                  "option combination; no size bound): a route origin is served iff it is validated, not longer than "
                  "the family's limit, not unsafe under `reject`, not SLURM-filtered, or is a SLURM assertion; router "
                  "keys analogously (one per ASN of each certificate, only if BGPsec is enabled); per customer the "
                  "served provider list is the sorted union over all its ASPA objects (only if ASPA is enabled), "
                  "absent iff that union has more than 16380 entries; every item / customer occurs once. The "
                  "executable oracle of the property is proved to hold of the model on every input and is evaluated "
                  "on the implementation's snapshot for every generated case.",
    "level_note": "Model hand-written from src/payload/validation.rs (add_roa, the toggles of PubPointProcessor, "
                  "extend_from_cert, finalize, keep_prefix, SnapshotBuilder) and src/slurm.rs. Tie = differential run "
                  "of ValidationReport::into_snapshot. Input reaches the report either through the real "
                  "PubPointProcessor (process_ta, process_roa, process_router_cert, process_aspa, commit, cancel) with "
                  "ROAs, router certificates, ASPA objects and CA certificates built, signed with a fixture key, and "
                  "decoded/validated by the rpki crate, or through the add-only cfg(routinator_verif) hooks "
                  "verif_push_point / verif_reject (needed for data no decoder yields: arbitrary key ids, > 16380 "
                  "providers in one object, non-canonical address blocks). The external rpki functions (SLURM filter "
                  "matching incl. Prefix::covers; IpBlocks normalisation + intersects_block) are modelled and checked "
                  "by their own streams. Route origins and router keys are compared as sets (plus a harness-side check "
                  "that the snapshot is strictly increasing in the implementation's Ord); byte strings of real "
                  "certificates are replaced by per-case indices. Not tied: the skip branch of rpki's iter_origins "
                  "for out-of-range lengths (unreachable from decoded ROAs).",
    "rule": "compose: 1 origin x 14 SLURM filter shapes x 5 assertion shapes x 4 rejected-block shapes (x 3 policies "
            "when overlapping); prefix length limits at limit-1/limit/limit+1 for both families in one ROA (hook and "
            "real processor); duplicates across ROAs/points/TALs incl. max-len None vs explicit; router keys over "
            "overlapping/adjacent AS blocks x 7 bgpsec filter shapes x assertions; ASPA unions of 16379/16380/16381 "
            "providers (overlapping, interleaved, single object); real-object runs for all toggle combinations x "
            "cancel() on fixture and self-made CA certificates; 300 (quick) structured random cases; 2 large cases; "
            "degenerate inputs. slurm: every pair of a 21-prefix universe as (filter, origin) with/without ASN, key "
            "filters over a small universe, 250 random (truncation, one flipped bit, extension). blocks: 22 "
            "block/prefix relations x 10 prefixes incl. /0,/32,/128 and first/last address, 300 random block lists "
            "(sorted path and unsorted path of from_iter, adjacent, nested). distinct = distinct Coq case term; "
            "non-trivial = something was removed, merged or added on the way (resp. a filter matched / a prefix was "
            "rejected)",
    "assumptions": ["the rpki decoders yield what wf_inputb states (canonical prefixes, strictly increasing ASPA "
                    "providers, min <= max in blocks)",
                    "feature toggles are tied only through the real PubPointProcessor paths (hook points never "
                    "carry keys/ASPAs when the toggle is off)",
                    "IPv4 addresses are left-aligned in 128 bits by the implementation; the model uses the natural "
                    "width (order-preserving embedding done by the harness the way the rpki decoder does it)"],
}
