"""C27 check configuration."""
_WHY = {"2": "C27.Spec oracle false on the implementation's behaviour: the real decoder panicked, the worker process "
             "died (abort / failed allocation), returned a fatal error from a byte slice, or made a single allocation "
             "larger than 3 * (input length + c) + 4096 bytes",
        "1": "property oracle true but the model decoder and the real decoder differ (result, remaining input) or the "
             "real decoder's largest allocation exceeds 3 * (largest request of the model) + 4096"}
_WHY_ARCHIVES = {"2": "C27.ArchiveSpec oracle false on the implementation's behaviour on an archive file: a reader operation "
                         "of RrdpArchive (open, load_state, load_object, objects, try_open, verify) panicked, the worker "
                         "process died or hung inside it, objects() does not end, or a single allocation was larger than "
                         "3 * (file length + 65536 * 41) + 4096 bytes (no model is involved in this stream)"}
SPEC = {
    "module": "C27.Property",
    "targets": ["C27/Property.vo", "C27/ArchiveSpec.vo"],
    "theorems": [
        "C27_total_bounded", "C27_safe_decode", "C27_safe_read_vec", "C27_safe_read_map", "C27_safe_header",
        "C27_safe_manifest", "C27_safe_object", "C27_safe_stored_status", "C27_safe_state", "C27_vec_growth",
        "C27_status_file", "C27_point_file", "C27_model_satisfies_spec", "C27_file_model_satisfies_spec",
        "C27_unfixed_bytes_panics", "C27_unfixed_bytes_allocates", "C27_unfixed_uri_allocates",
        "C27_unfixed_map_panics", "C27_unfixed_map_preallocates", "C27_nonvacuous"],
    "streams": [
        {"name": "decoders", "bin": "c27", "check_module": "C27.Spec",
         "model_expr": "model_obs (k_kind CASE) (k_bytes CASE)", "why": _WHY},
        {"name": "files", "bin": "c27", "check_module": "C27.Spec", "fn": "check_fcase", "casetype": "fcase",
         "env": {"C27_STREAM": "files"},
         "model_expr": "file_model (f_status CASE) (f_bytes CASE)", "why": _WHY},
        # oracle only: no model, no theorem (the byte-level reader of utils/archive.rs is not modelled)
        {"name": "archives", "bin": "c27", "check_module": "C27.ArchiveSpec", "fn": "check_acase", "casetype": "acase",
         "env": {"C27_STREAM": "archives"}, "why": _WHY_ARCHIVES},
    ],
    "level_text": "Theorems over ALL byte strings (no length bound beyond fitting the address space) for the 22 "
                  "decoders (16 Parse impls of utils/binio.rs with the fix, StoredPointHeader, UpdateStatus, "
                  "StoredManifest, StoredObject, StoredStatus, RepositoryState): the result is a value or an error, "
                  "never a panic, and every capacity request is <= input length + c (c = 65536, plus 65536*40 for the "
                  "map decoder); the same for the whole-file readers Store::status and StoredPoint::open + object "
                  "iteration, whose iteration always ends. The pre-fix decoders are refuted by computed witnesses. "
                  "PARTIAL with respect to the property text: RRDP archive files as files (the memory-mapped object "
                  "archive format of utils/archive.rs) are covered only by an oracle-only stream (`archives`) without a "
                  "model or theorem: corrupted archive files are run through every reader of RrdpArchive and the "
                  "outcome is checked against the property's oracle (no panic, no process death or hang, bounded "
                  "allocation); the byte-level reader of utils/archive.rs is not modelled and nothing is proved "
                  "about it.",
    "level_note": "Model = C28's model of the fixed code plus the two file readers; tie = every case run through the "
                  "real decoder in a child process under a counting global allocator (panics caught, process death "
                  "observed), result and remaining input compared with the model inside Coq, largest single "
                  "allocation compared with 3x the model's largest request (Vec doubling, hashbrown load factor and "
                  "power-of-two buckets) + 4096. A model request is a needed capacity, not an allocator call. "
                  "Trusted: Coq kernel, harness, counting allocator, hooks.",
    "rule": "cases (decoders): the corpus of inputs that crash the unfixed code; empty input and all first octets for "
            "tagged/versioned kinds; every octet value inside a URI; every hash-type octet; 10-12 extreme length "
            "prefixes at each of the 19 places a length is read, with 0/1/40/200 bytes behind them; time range ends "
            "+-1; serial sign bit; duplicate/short/over-counted maps; 61 URI syntax probes; declared lengths around "
            "the 64 KiB chunk; all truncations and 3-5 single-byte corruptions per position plus bit flips of 2 (quick) / 6 "
            "(thorough) valid encodings per kind; random and half-valid byte strings. cases (files): status.bin and "
            "stored-point files: valid, all/sampled truncations, byte corruptions, extreme length prefixes, random. "
            "cases (archives, oracle only): two valid archive files written by the real RrdpArchive writer (3 buckets: "
            "chains in every bucket, explored in full; 1024 buckets: header in full, index and blocks sampled; objects "
            "of 0 to 5000 bytes, a repository state, moved / updated / deleted objects, free blocks); every "
            "truncation in the header/index region and around every block header plus a sample; 3-4 single-byte "
            "corruptions (xor 1, xor 0x80, 0xFF, 0x00) at every position of the header/index region and of every "
            "block header plus a sample of payload positions; every 8-byte field (bucket count, index entries, size, "
            "next, name_len, data_len) set to 0, 1, 2^31, 2^32, 2^63-1, 2^63, 2^64-2, 2^64-1, values around the file "
            "length and around what is left behind the field, and lengths that make start+len wrap around; pointers "
            "redirected (cycle, first block, middle of a block); 0xFF/0x00 blocks of 8/16/64 bytes at every block "
            "header and over its length fields; header-only and index-only files with extreme bucket counts; random "
            "bytes (bare, behind the magic, behind the header, behind the index); the empty file. Every case: open, "
            "load_state, load_object for each original name and an absent one, objects() to its end, try_open, "
            "verify. "
            "distinct = distinct Coq case term; non-trivial = result other than plain EOF (decoders) / other than "
            "Failed (files) / archive opened (archives)",
    "assumptions": ["64-bit target (usize = u64, isize::MAX = 2^63-1)",
                    "Vec<u8> grows to at most max(2*cap, needed) and hashbrown allocates at most "
                    "next_power_of_two(8/7 * n) buckets of 41 bytes + 16 (both inside the factor 3 of the tie)",
                    "the input fits into the address space: length + c <= isize::MAX",
                    "rpki's URI checks and chrono's time range as in C28"],
}
