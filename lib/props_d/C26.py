"""C26 check configuration."""
SPEC = {
    "module": "C26.Property",
    "targets": ["C26/Property.vo"],
    "theorems": ["C26_step", "C26_sequences", "C26_init", "C26_append_archive", "C26_layout", "C26_layout_check_exact",
                 "C26_verify_ok", "C26_objects_exact", "C26_model_satisfies_spec", "C26_nonvacuous"],
    "streams": [{
        "name": "ops", "bin": "c26", "check_module": "C26.Spec",
        "model_expr": "model_obs (c_nb CASE) (c_msz CASE) (bucket_of (c_buckets CASE)) (c_init CASE) (c_ops CASE)",
        "why": {"2": "C26.Spec.spec_okb false: after some operation of the sequence the real archive did not answer like "
                     "a map (result, objects(), raw file content), verify() failed, or the raw file is not laid out "
                     "consistently (tiling, chains)"},
    }],
    "level_text": "Theorems over ALL operation sequences (induction over the operation list, no bound on length, names, "
                  "sizes or bucket function): from every consistent state every publish/update/delete/fetch/fetch_if/reopen "
                  "returns what a map name -> (meta, data) returns (AlreadyExists, NotFound, Inconsistent from the check "
                  "closure, the data) and commutes with the abstraction function; the layout invariant (headers tile the "
                  "file from the end of the index to the file size without gap or overlap, sizes positive multiples of 256 "
                  "and page-rounded for objects, each object in exactly its bucket's chain, each empty header in exactly "
                  "the empty chain, chains duplicate free, names unique) is preserved by every operation, holds initially, "
                  "is decided exactly by the executable check applied to the implementation's raw file, and implies that "
                  "verify() succeeds and objects() yields exactly the map; AppendArchive::publish likewise.",
    "level_note": "Model hand-written from src/utils/archive.rs at header level (position -> header, pointers followed with "
                  "fuel = number of headers + 1); tie = the real Archive/AppendArchive run on temp files, after EVERY operation "
                  "result, verify() with statistics, objects() in iteration order and the raw file parsed into index, empty "
                  "index and headers are compared with the model inside Coq. Trusted: Coq kernel, harness and raw-file parser, "
                  "hook verif_create_with_file (fixed hash key / bucket count) and verif_hash_name in archive.rs.",
    "rule": "cases: every sequence of <= 3 (thorough: 4) operations from a 10-operation alphabet over two always-colliding "
            "names and two object sizes; boundary classes: page rounding at 256k-1/256k/256k+1 for both meta sizes, the fits "
            "rule around a hole (hole, hole-32/-33/-34, hole+-1, hole-256+-1, hole+33), all delete orders for coalescing and "
            "truncation, update in place / smaller / larger / last object / next to an empty, smallest-fit with ties, "
            "check closures, empty and long names, empty data; random sequences of 8..30 (thorough: 45) operations over 2..8 "
            "names with 1, 2, 3, 5 or 1024 buckets and sizes biased to page and fits boundaries, reopen between operations; "
            "archives made by Archive::create (random key) and by AppendArchive + finalize; distinct = distinct Coq case "
            "term; non-trivial = some state of the run has >= 2 headers one of which is empty",
    "assumptions": ["ArchiveMeta::hash_name is a function of the name with values below the bucket count (the model is "
                    "parametric in it; per case the harness reads it from the real archive through verif_hash_name)",
                    "no u64/usize overflow of positions and sizes, no I/O errors; the mmap and the plain-file paths of "
                    "Storage read and write the same bytes (unix mmap path is what runs)",
                    "ObjectMeta::write/read of the caller write/read exactly Meta::SIZE bytes (trait contract)"],
}
