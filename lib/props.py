"""Per-property configuration of ./check: one file per property under lib/props_d/<id>.py defining SPEC
(proof targets, theorems, correspondence streams, texts for MANIFEST.json)."""
import importlib.util
import os

PROPS = {}
HERE = os.path.join(os.path.dirname(os.path.abspath(__file__)), "props_d")
for f in sorted(os.listdir(HERE)):
    if f.endswith(".py") and f[0] == "C":
        spec = importlib.util.spec_from_file_location("props_d_" + f[:-3], os.path.join(HERE, f))
        m = importlib.util.module_from_spec(spec)
        spec.loader.exec_module(m)
        PROPS[f[:-3]] = m.SPEC

# reasons for properties that are not claimed (MANIFEST.not_applicable)
NOT_CLAIMED_REASON = {}
# commits in /repo that add cfg(routinator_verif) hooks
HOOK_COMMITS = [
    "0a7bef8 verif hook: SharedHistory::verif_init_at / verif_delta_count",
    "d6f85c4 verif hooks: src/verif.rs registry, history lock points, clock override, process_once wrapper, run outcome injection, notify point, HTTP dispatcher exposure",
    "68fa744 verif hooks: clock override in SharedHistory::update, thread exemption and wait_any",
    "verif hook: SharedHistory::verif_replace_current",
    "verif hooks: count validation runs; sticky forced outcomes",
    "verif hooks: RTR listener/stream exposure, rendezvous points in RtrStream::new and metrics",
    "verif hooks: status/metrics renderers, PublishInfo re-export, injected RRDP outcome, LimitedDataRead exposure",
    "verif hooks: Archive creation with chosen hash key, ValidationReport plain-data push/reject",
    "verif hooks: path builders / dubious-host gates, stored record exposure, forced manifest order, rsync load_module points, in-process rsync stand-in, kill points (store, fatal, RRDP update), RRDP updater exposure",
]
