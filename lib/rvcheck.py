"""Orchestration of one property check (see DESIGN.md section 2).

Steps: proof obligations (make + Print Assumptions allow-list + forbidden-word
grep + statement pins compiled into Property.v), harness build from /repo's
working tree, correspondence (implementation observation vs. the Coq model,
compared inside Coq by the family's `check_case`), property oracle on the
implementation's output, verdict, evidence.
"""
import hashlib
import json
import os
import re
import subprocess
import sys
import time
from concurrent.futures import ThreadPoolExecutor

ROOT = os.path.dirname(os.path.dirname(os.path.abspath(__file__)))
COQ = os.path.join(ROOT, "coq")
HARNESS = os.environ.get("RV_HARNESS") or os.path.join(ROOT, "harness")   # RV_HARNESS: scratch copy used by tools/seed_confirm.sh
RUNID = os.environ.get("RV_RUNID", "")          # private work directories for concurrent runs (seed slots, thorough sweeps)
WORK = os.path.join(ROOT, "work" + ("_" + RUNID if RUNID else ""))
EVID = os.path.join(ROOT, "evidence")
REPLAYS = os.path.join(ROOT, "replays")
NPROC = 16

# Axioms of Coq's standard library that Print Assumptions may report and that we accept
# (none is needed so far; each use must be named in DESIGN.md section 4).
AXIOM_ALLOW = {
    "functional_extensionality_dep", "FunctionalExtensionality.functional_extensionality_dep",
    "proof_irrelevance", "ProofIrrelevance.proof_irrelevance", "Eqdep.Eq_rect_eq.eq_rect_eq",
    "JMeq.JMeq_eq", "Classical_Prop.classic",
}
FORBIDDEN = re.compile(
    r"\b(Admitted|admit|Axiom|Axioms|Parameter|Parameters|Conjecture|Abort All|Admit Obligations|"
    r"Unset Guard Checking|Unset Positivity Checking|Unset Universe Checking|bypass_check|"
    r"type-in-type|impredicative-set)\b")


class Infra(Exception):
    """Failure of the machinery itself (never reported as a violation)."""


def sh(cmd, cwd=None, timeout=None, env=None):
    e = dict(os.environ)
    e.setdefault("CARGO_NET_OFFLINE", "true")
    if env:
        e.update(env)
    p = subprocess.run(cmd, cwd=cwd, shell=isinstance(cmd, str), stdout=subprocess.PIPE,
                       stderr=subprocess.STDOUT, timeout=timeout, env=e, text=True, errors="replace")
    return p.returncode, p.stdout


# --------------------------------------------------------------------------
# proofs

def strip_comments(src):
    out, depth, i = [], 0, 0
    while i < len(src):
        if src.startswith("(*", i):
            depth += 1
            i += 2
        elif src.startswith("*)", i) and depth:
            depth -= 1
            i += 2
        else:
            if not depth:
                out.append(src[i])
            i += 1
    return "".join(out)


def forbidden_scan():
    hits = []
    for d, _, fs in os.walk(COQ):
        if "_cases" in d:
            continue
        for f in fs:
            if f.endswith(".v"):
                p = os.path.join(d, f)
                code = strip_comments(open(p, errors="replace").read())
                for m in FORBIDDEN.finditer(code):
                    hits.append("%s: %s" % (os.path.relpath(p, ROOT), m.group(0)))
    return hits


def coq_project():
    rc, out = sh(["sh", "gen_project.sh"], cwd=COQ, timeout=120)
    if rc:
        raise Infra("gen_project.sh failed: " + out)


def build_proofs(targets, timeout=1500):
    """Builds the .vo targets (full build, never -vos). Returns (ok, log)."""
    coq_project()
    rc, out = sh(["make", "-j%d" % NPROC] + targets, cwd=COQ, timeout=timeout)
    return rc == 0, out


def print_assumptions(module, theorems):
    """Returns {theorem: 'closed' | [axioms] | 'missing'}."""
    os.makedirs(os.path.join(COQ, "_cases"), exist_ok=True)
    tag = hashlib.sha1((module + ",".join(theorems)).encode()).hexdigest()[:10]
    path = os.path.join(COQ, "_cases", "assume_%s%s.v" % (tag, "_" + RUNID if RUNID else ""))
    with open(path, "w") as f:
        f.write("From RV Require Import %s.\n" % module)
        for t in theorems:
            f.write('Goal True. idtac "@@BEGIN %s". Abort.\n' % t)
            f.write("Print Assumptions %s.\n" % t)
        f.write('Goal True. idtac "@@END". Abort.\n')
    rc, out = sh(["coqc", "-noglob", "-Q", COQ, "RV", path], timeout=600)
    res = {}
    if rc:
        for t in theorems:
            res[t] = "missing"
        return res, out
    chunks = re.split(r"@@BEGIN (\S+)", out)
    for i in range(1, len(chunks), 2):
        name, body = chunks[i], chunks[i + 1].split("@@END")[0]
        if "Closed under the global context" in body:
            res[name] = "closed"
        else:
            axs = re.findall(r"^([A-Za-z_][\w.']*)\s*:", body, flags=re.M)
            res[name] = axs or ["<unparsed>"]
    for t in theorems:
        res.setdefault(t, "missing")
    return res, out


def check_proofs(spec):
    """Runs all proof obligations of a property. Returns dict for evidence."""
    theorems = spec["theorems"]
    ok, log = build_proofs(spec["targets"])
    result = {"obligations": len(theorems), "discharged": 0, "failed": [], "log_tail": log[-2000:] if not ok else "",
              "assumptions": {}}
    hits = forbidden_scan()
    result["forbidden_hits"] = hits
    if not ok:
        result["failed"] = list(theorems)
        return result
    ass, out = print_assumptions(spec["module"], theorems)
    result["assumptions"] = ass
    for t in theorems:
        a = ass[t]
        if a == "closed" or (isinstance(a, list) and all(x.split(".")[-1] in {y.split(".")[-1] for y in AXIOM_ALLOW} for x in a)):
            if not hits:
                result["discharged"] += 1
                continue
        result["failed"].append(t)
    return result


# --------------------------------------------------------------------------
# harness

def build_harness(bins, timeout=1500):
    args = ["cargo", "build", "--offline"]
    for b in bins:
        args += ["--bin", b]
    t0 = time.time()
    rc, out = sh(args, cwd=HARNESS, timeout=timeout)
    if rc:
        raise Infra("harness build failed:\n" + out[-4000:])
    return time.time() - t0


def run_harness(binname, mode, outdir, seed=1, tier="quick", case=None, timeout=1500, env=None):
    os.makedirs(outdir, exist_ok=True)
    for f in ("cases.jsonl", "cases.coq", "stats.json"):
        try:
            os.remove(os.path.join(outdir, f))
        except FileNotFoundError:
            pass
    tdir = os.environ.get("CARGO_TARGET_DIR") if os.environ.get("RV_HARNESS") else None
    cmd = [os.path.join(tdir or os.path.join(HARNESS, "target"), "debug", binname), mode, "--out", outdir]
    if mode == "gen":
        cmd += ["--seed", str(seed), "--tier", tier]
    else:
        cmd += ["--case", case]
    # the thorough generators of the crash / history families run for a long time on a loaded machine
    try:
        rc, out = sh(cmd, timeout=(timeout * 6 if tier == "thorough" else timeout * 2), env=env)
    except subprocess.TimeoutExpired:
        raise Infra("harness %s did not finish within its time limit (tier %s)" % (binname, tier))
    if rc or not os.path.exists(os.path.join(outdir, "stats.json")):
        raise Infra("harness %s failed (rc=%s):\n%s" % (binname, rc, out[-4000:]))
    cases = [json.loads(l) for l in open(os.path.join(outdir, "cases.jsonl"))]
    terms = [l.rstrip("\n") for l in open(os.path.join(outdir, "cases.coq"))]
    stats = json.load(open(os.path.join(outdir, "stats.json")))
    if len(cases) != len(terms):
        raise Infra("harness wrote %d cases but %d coq terms" % (len(cases), len(terms)))
    return cases, terms, stats


# --------------------------------------------------------------------------
# model evaluation inside Coq

HEADER = """From Coq Require Import List NArith ZArith Bool String Ascii.
From RV Require Import %(module)s.
Import ListNotations.
Local Open Scope N_scope.
Set Printing Depth 100000000.
Set Printing Width 100000000.
"""


def _run_shard(args):
    path, = args
    # large case terms (tens of thousands of list elements) need more stack than the default 8 MB
    rc, out = sh("ulimit -s unlimited 2>/dev/null || ulimit -s 1000000; exec coqc -noglob -Q '%s' RV '%s'" % (COQ, path),
                 timeout=3000)
    return rc, out


def eval_cases(tag, module, fn, terms, casetype="case", per_shard=None, debug_fn=None):
    """Evaluates `fn` on every term with vm_compute; returns list of ints (codes)."""
    if not terms:
        return []
    d = os.path.join(COQ, "_cases", tag + ("_" + RUNID if RUNID else ""))
    os.makedirs(d, exist_ok=True)
    for f in os.listdir(d):
        os.remove(os.path.join(d, f))
    n = len(terms)
    if per_shard is None:
        per_shard = max(1, (n + NPROC - 1) // NPROC)
    shards = [terms[i:i + per_shard] for i in range(0, n, per_shard)]
    paths = []
    for i, sh_terms in enumerate(shards):
        p = os.path.join(d, "shard_%d.v" % i)
        with open(p, "w") as f:
            f.write(HEADER % {"module": module})
            f.write("Definition cs : list %s := [\n" % casetype)
            f.write(";\n".join(sh_terms))
            f.write("\n].\n")
            f.write("Eval vm_compute in (map %s cs).\n" % fn)
        paths.append(p)
    with ThreadPoolExecutor(NPROC) as ex:
        results = list(ex.map(_run_shard, [(p,) for p in paths]))
    codes = []
    for (rc, out), sh_terms, p in zip(results, shards, paths):
        if rc:
            raise Infra("coqc failed on %s:\n%s" % (p, out[-3000:]))
        m = re.search(r"=\s*\[(.*?)\]", out, flags=re.S)
        if not m:
            raise Infra("cannot parse coqc output of %s:\n%s" % (p, out[-2000:]))
        body = m.group(1).strip()
        got = [int(x) for x in re.findall(r"\d+", body)] if body else []
        if len(got) != len(sh_terms):
            raise Infra("%s: %d results for %d cases" % (p, len(got), len(sh_terms)))
        codes += got
    return codes


def eval_one(tag, module, expr):
    """Evaluates one expression and returns Coq's printed result (for replay files)."""
    d = os.path.join(COQ, "_cases", tag + ("_" + RUNID if RUNID else ""))
    os.makedirs(d, exist_ok=True)
    p = os.path.join(d, "one.v")
    with open(p, "w") as f:
        f.write(HEADER % {"module": module})
        f.write("Eval vm_compute in (%s).\n" % expr)
    rc, out = sh(["coqc", "-noglob", "-Q", COQ, "RV", p], timeout=600)
    return out.strip()[-6000:]


# --------------------------------------------------------------------------
# verdicts

def load_known():
    p = os.path.join(ROOT, "known_findings.json")
    if not os.path.exists(p):
        return {"findings": [], "fixed": []}
    return json.load(open(p))


def write_replay(pid, payload):
    os.makedirs(REPLAYS, exist_ok=True)
    h = hashlib.sha1(json.dumps(payload, sort_keys=True).encode()).hexdigest()[:12]
    path = os.path.join(REPLAYS, "%s-%s.json" % (pid, h))
    with open(path, "w") as f:
        json.dump(payload, f, indent=1, sort_keys=True)
    return path


def write_evidence(pid, ev):
    if os.environ.get("RV_NO_EVIDENCE"):
        return
    os.makedirs(EVID, exist_ok=True)
    with open(os.path.join(EVID, "%s.json" % pid), "w") as f:
        json.dump(ev, f, indent=1)


def trusted_base(proofs):
    tb = ["Coq 8.16.1 kernel (coqc), vm_compute for finite facts and model evaluation; no native_compute",
          "hand-written Gallina model tied to /repo by the differential correspondence run of this check",
          "Rust harness (harness/), generators, canonicalisers, lib/rvcheck.py"]
    for t, a in sorted(proofs.get("assumptions", {}).items()):
        tb.append("Print Assumptions %s: %s" % (t, "Closed under the global context" if a == "closed" else a))
    return tb
