#!/usr/bin/env python3
"""Regenerates MANIFEST.json from lib/props.py (claimed checks) and properties.jsonl (the rest)."""
import json, os, sys
ROOT = os.path.dirname(os.path.dirname(os.path.abspath(__file__)))
sys.path.insert(0, os.path.join(ROOT, "lib"))
from props import PROPS, NOT_CLAIMED_REASON, HOOK_COMMITS

ids = [json.loads(l)["id"] for l in open(os.path.join(ROOT, "properties.jsonl"))]
checks = []
for pid in ids:
    if pid not in PROPS:
        continue
    s = PROPS[pid]
    checks.append({
        "property_id": pid,
        "quick_cmd": "./check %s --tier quick" % pid,
        "thorough_cmd": "./check %s --tier thorough" % pid,
        "evidence_file": "/verif/evidence/%s.json" % pid,
        "replay_cmd_template": "./check %s --replay {path}" % pid,
        "engine": "coq+harness",
        "level_claimed": {"category": "proof", "text": s["level_text"], "design_ref": s.get("design_ref", "DESIGN.md section 6")},
        "level_note": s["level_note"],
        "technique": s.get("technique", "machine-checked Coq proof over an executable Gallina model + differential correspondence against /repo"),
    })
manifest = {
    "version": 1,
    "setup_cmd": "sh setup.sh",
    "hooks": {
        "guard": "routinator_verif",
        "enable": "RUSTFLAGS='--cfg routinator_verif' (set in harness/.cargo/config.toml; the harness crate depends on /repo by path)",
        "baseline_off_cmd": "cd /repo && cargo test --workspace --no-fail-fast --offline",
        "source_commits": HOOK_COMMITS,
        "add_only": True,
    },
    "engines": [{
        "name": "coq+harness", "path": "/verif/check",
        "serves_properties": [c["property_id"] for c in checks],
        "kind_free_text": "Coq 8.16 theories under coq/ (model, theorems, executable oracle), Rust harness under harness/ "
                          "running /repo's current tree, comparison evaluated inside Coq by vm_compute",
    }],
    "checks": checks,
    "not_applicable": [{"property_id": pid, "reason": NOT_CLAIMED_REASON.get(pid, "no check built yet; not claimed")}
                       for pid in ids if pid not in PROPS],
    "notes": "See DESIGN.md. Known findings: known_findings.json.",
}
json.dump(manifest, open(os.path.join(ROOT, "MANIFEST.json"), "w"), indent=1)
print("claimed:", len(checks), "unclaimed:", len(manifest["not_applicable"]))
