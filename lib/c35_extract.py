#!/usr/bin/env python3
"""C35 table extractor: regenerates the per-option table of the Coq model from /repo/src/config.rs.

For every config key it determines
  * the reader kind   from the `file.take_*("key")` call and its post-processing in `from_config_file`
                      (and `log_target_from_config_file`), with the accepted range and the default,
  * the printer kind  from the `insert(&mut res, "key", ..)` / `insert_int(..)` call of `to_toml`
                      (PNone when the key is never printed),
  * the CLI kind      from the statement of `apply_arg_matches` / `apply_server_arg_matches` that assigns
                      the field, and the clap field type / `range(..=N)` of `GlobalArgs` / `ServerArgs`,
  * enum codecs       from `impl Display` / `impl FromStr` of FilterPolicy and FallbackPolicy,
                      `facility_to_string`, and `Facility::from_str` of the vendored syslog crate.
Code that is not recognised yields PUnknown / RUnknown / CUnknown, which no row coherence accepts, so an
unparsed change of config.rs makes the check fail instead of passing silently.

Output: coq/_cases/C35T/Table.v    (Definition the_table : table)
        coq/_cases/C35T/TableOk.v  (table_okb false the_table = true by computation + the instantiated theorems)
        work/C35/table.json        (the rows, for people)
With --build: builds C35/Property.vo through the Makefile, then compiles the two generated files
(a failure of TableOk.v is reported but is not an error of this script: the check then reports the
theorems as not discharged and the harness looks for the failing input).
Exit status non-zero only when the machinery itself fails.
"""
import glob
import hashlib
import json
import os
import re
import subprocess
import sys

ROOT = os.path.dirname(os.path.dirname(os.path.abspath(__file__)))
REPO = os.environ.get("RV_REPO", "/repo")
SRC = os.path.join(REPO, "src", "config.rs")
COQ = os.path.join(ROOT, "coq")
OUT = os.path.join(COQ, "_cases", "C35T")
WORK = os.path.join(ROOT, "work", "C35")

I64MAX = 2**63 - 1
TYPE_MAX = {"u8": 2**8 - 1, "u16": 2**16 - 1, "u32": 2**32 - 1, "u64": 2**64 - 1, "usize": 2**64 - 1}
ENUM_TYPES = ("FilterPolicy", "FallbackPolicy", "LevelFilter")
# external codec (crate `log`): Display prints the upper-case name, FromStr compares with eq_ignore_ascii_case
LEVELFILTER = [("Off", "OFF"), ("Error", "ERROR"), ("Warn", "WARN"), ("Info", "INFO"), ("Debug", "DEBUG"),
               ("Trace", "TRACE")]


# --------------------------------------------------------------------------
# a little Rust-aware text handling

def strip_comments(src):
    """Removes // and /* */ comments, keeps string and char literals."""
    out, i, n = [], 0, len(src)
    while i < n:
        c = src[i]
        if src.startswith("//", i):
            j = src.find("\n", i)
            i = n if j < 0 else j
        elif src.startswith("/*", i):
            j = src.find("*/", i + 2)
            i = n if j < 0 else j + 2
        elif c == '"':
            j = i + 1
            while j < n and src[j] != '"':
                j += 2 if src[j] == "\\" else 1
            out.append(src[i:j + 1])
            i = j + 1
        elif c == "'":
            m = re.match(r"'(\\.|[^\\'])'", src[i:])
            if m:
                out.append(m.group(0))
                i += len(m.group(0))
            else:
                out.append(c)
                i += 1
        else:
            out.append(c)
            i += 1
    return "".join(out)


def scan(text, i=0):
    """Yields (index, char, depth_before) for code characters, skipping string/char literals."""
    depth, n = 0, len(text)
    while i < n:
        c = text[i]
        if c == '"':
            j = i + 1
            while j < n and text[j] != '"':
                j += 2 if text[j] == "\\" else 1
            i = j + 1
            continue
        if c == "'":
            m = re.match(r"'(\\.|[^\\'])'", text[i:])
            if m:
                i += len(m.group(0))
                continue
        yield i, c, depth
        if c in "([{":
            depth += 1
        elif c in ")]}":
            depth -= 1
        i += 1


def block_after(text, start):
    """text[start] is the position of (or before) an opening brace; returns (open, close) indexes."""
    o = text.index("{", start)
    for i, c, d in scan(text, o):
        if c == "}" and d == 1:
            return o, i
    raise ValueError("unbalanced braces")


def fn_body(src, signature_re, nth=0):
    ms = list(re.finditer(signature_re, src))
    if len(ms) <= nth:
        return None
    o, c = block_after(src, ms[nth].end() - 1)
    return src[o + 1:c]


def split_top(text, sep=",", angle=False):
    """Splits at top-level separators; with angle=True, `<`/`>` nest too (type positions only)."""
    parts, last, ang = [], 0, 0
    for i, c, d in scan(text):
        if angle and c == "<":
            ang += 1
        elif angle and c == ">" and text[i - 1] not in "-=":
            ang = max(0, ang - 1)
        if c == sep and d == 0 and ang == 0:
            parts.append(text[last:i])
            last = i + 1
    parts.append(text[last:])
    return [p for p in parts if p.strip()]


def statements(body):
    """Top-level statements of a block body."""
    res, start = [], 0
    for i, c, d in scan(body):
        if d == 0 and c == ";":
            res.append(body[start:i + 1])
            start = i + 1
        elif c == "}" and d == 1:
            head = body[start:i + 1].lstrip()
            if re.match(r"(#\[[^\]]*\]\s*)*(if|match|for|while|fn|loop)\b", head):
                rest = body[i + 1:].lstrip()
                if rest.startswith("else"):
                    continue
                res.append(body[start:i + 1])
                start = i + 1
    tail = body[start:]
    if tail.strip():
        res.append(tail)
    return [s.strip() for s in res if s.strip()]


def norm(s):
    """Removes all whitespace outside string literals."""
    out, last = [], 0
    for m in re.finditer(r'"(?:\\.|[^"\\])*"', s):
        out.append(re.sub(r"\s+", "", s[last:m.start()]))
        out.append(m.group(0))
        last = m.end()
    out.append(re.sub(r"\s+", "", s[last:]))
    return "".join(out)


# --------------------------------------------------------------------------
# Coq printing

def cstr(s):
    return '"%s"' % s.replace('"', '""')


def cbool(b):
    return "true" if b else "false"


def cpairs(l):
    return "[" + "; ".join("(%s, %s)" % (cstr(a), cstr(b)) for a, b in l) + "]"


def copt(x, f=str):
    return "None" if x is None else "(Some %s)" % f(x)


# --------------------------------------------------------------------------

class Extract:
    def __init__(self, path):
        raw = open(path, encoding="utf-8").read()
        self.sha = hashlib.sha256(raw.encode()).hexdigest()
        self.src = strip_comments(raw)
        self.notes = []
        self.consts = self.parse_consts()
        self.fields = self.parse_struct(r"pub\s+struct\s+Config\s*\{", pub=True)
        self.args = {}
        for name in ("GlobalArgs", "ServerArgs"):
            self.args.update(self.parse_args_struct(name))
        self.enums = self.parse_enums()
        self.helper_max = self.parse_helpers()

    def note(self, s):
        self.notes.append(s)

    # ---- constants
    def parse_consts(self):
        res = {}
        for m in re.finditer(r"const\s+(\w+)\s*:\s*([^=;]+?)\s*=\s*([^;]+);", self.src):
            res[m.group(1)] = (norm(m.group(2)), norm(m.group(3)))
        return res

    def num_of(self, e):
        """Number (whole seconds for durations) denoted by a normalised expression, or None."""
        e = e.strip()
        if re.fullmatch(r"[0-9_]+", e):
            return int(e.replace("_", ""))
        m = re.fullmatch(r"Duration::from_secs\((.+)\)", e)
        if m:
            return self.num_of(m.group(1))
        if e in self.consts:
            return self.num_of(self.consts[e][1])
        return None

    def optnum_of(self, e):
        """('ok', None|n) for an Option<number> expression, or None when not understood."""
        if e == "None":
            return ("ok", None)
        m = re.fullmatch(r"Some\((.+)\)", e)
        if m:
            n = self.num_of(m.group(1))
            return None if n is None else ("ok", n)
        if e in self.consts:
            return self.optnum_of(self.consts[e][1])
        return None

    # ---- struct Config
    def parse_struct(self, head_re, pub):
        m = re.search(head_re, self.src)
        o, c = block_after(self.src, m.end() - 1)
        res = {}
        for part in split_top(self.src[o + 1:c], angle=True):
            mm = re.search(r"(?:pub\s+)?(\w+)\s*:\s*(.+)$", part.strip(), flags=re.S)
            if mm:
                res[mm.group(1)] = norm(mm.group(2))
        return res

    # ---- clap structs
    def parse_args_struct(self, name):
        m = re.search(r"struct\s+%s\s*\{" % name, self.src)
        o, c = block_after(self.src, m.end() - 1)
        res = {}
        for part in split_top(self.src[o + 1:c], angle=True):
            p = part.strip()
            attrs = []
            while p.startswith("#["):
                # attribute: find matching bracket
                depth_end = None
                for i, ch, d in scan(p, 1):
                    if ch == "]" and d == 1:
                        depth_end = i
                        break
                attrs.append(norm(p[:depth_end + 1]))
                p = p[depth_end + 1:].strip()
            mm = re.fullmatch(r"(\w+)\s*:\s*(.+)", p, flags=re.S)
            if not mm:
                continue
            ty = norm(mm.group(2))
            attr = "".join(attrs)
            inner = re.fullmatch(r"Option<(.+)>", ty)
            base = inner.group(1) if inner else ty
            mx = TYPE_MAX.get(base)
            if "range(" in attr:
                r1 = re.search(r"\.range\(\.\.=([0-9_]+)\)", attr)
                r2 = re.search(r"\.range\(\.\.([0-9_]+)\)", attr)
                r3 = re.search(r"\.range\(([0-9_]+)\.\.=([0-9_]+)\)", attr)
                if r1:
                    mx = int(r1.group(1).replace("_", ""))
                elif r2:
                    mx = int(r2.group(1).replace("_", "")) - 1
                elif r3 and int(r3.group(1).replace("_", "")) == 0:
                    mx = int(r3.group(2).replace("_", ""))
                else:
                    mx = None
                    self.note("clap range of %s.%s not understood: %s" % (name, mm.group(1), attr))
                if mx is not None and base in TYPE_MAX:
                    mx = min(mx, TYPE_MAX[base])
            elif "value_parser" in attr:
                mx = None
                self.note("clap value_parser of %s.%s not understood: %s" % (name, mm.group(1), attr))
            res[mm.group(1)] = {"type": ty, "max": mx, "attr": attr}
        return res

    # ---- enum codecs
    def parse_enums(self):
        res = {}
        for ty in ("FilterPolicy", "FallbackPolicy"):
            disp = fn_body(self.src, r"impl\s+fmt::Display\s+for\s+%s\s*\{" % ty)
            frm = fn_body(self.src, r"impl\s+FromStr\s+for\s+%s\s*\{" % ty)
            names = re.findall(r"%s::(\w+)\s*=>\s*\"([^\"]*)\"" % ty, disp or "")
            tbl = [(t, v) for t, v in re.findall(r"\"([^\"]*)\"\s*=>\s*Ok\(\s*%s::(\w+)\s*\)" % ty, frm or "")]
            res[ty] = {"names": names, "tbl": tbl, "ci": False}
        res["LevelFilter"] = {"names": LEVELFILTER, "tbl": [(t.lower(), v) for v, t in LEVELFILTER], "ci": True}
        # syslog facilities
        fts = fn_body(self.src, r"fn\s+facility_to_string\s*\([^)]*\)\s*->\s*String\s*\{")
        fnames = re.findall(r"\b(LOG_\w+)\s*=>\s*\"([^\"]*)\"", fts or "")
        ftbl = []
        ver = None
        try:
            lock = open(os.path.join(REPO, "Cargo.lock")).read()
            mm = re.search(r'name = "syslog"\nversion = "([^"]+)"', lock)
            ver = mm.group(1) if mm else None
        except OSError:
            pass
        cands = glob.glob(os.path.expanduser("~/.cargo/registry/src/*/syslog-%s/src/facility.rs" % (ver or "*")))
        if cands:
            fsrc = strip_comments(open(sorted(cands)[-1]).read())
            body = fn_body(fsrc, r"fn\s+from_str\s*\([^)]*\)\s*->\s*Result<\s*Facility\s*,\s*\(\)\s*>\s*\{")
            lowered = body is not None and "to_lowercase()" in body
            for alts, var in re.findall(r"((?:\"[^\"]*\"\s*\|?\s*)+)=>\s*Facility::(\w+)", body or ""):
                for t in re.findall(r"\"([^\"]*)\"", alts):
                    ftbl.append((t, var))
            if not lowered:
                self.note("Facility::from_str does not lowercase its argument any more")
                ftbl = []
        else:
            self.note("syslog crate source not found; facility parser unknown")
        res["Facility"] = {"names": fnames, "tbl": ftbl, "ci": True}
        return res

    # ---- ConfigFile helpers: accepted maxima
    def parse_helpers(self):
        res = {}
        def body(name):
            b = fn_body(self.src, r"fn\s+%s\s*(?:<[^>]*>)?\s*\(" % name)
            return norm(b) if b else ""
        b = body("take_u64")
        if "toml::Value::Integer(value)" in b and "u64::try_from(value.into_value())" in b:
            res["u64"] = I64MAX            # a TOML integer is an i64; negative values are refused
        b = body("take_usize")
        if "self.take_u64(key)?" in b and "usize::try_from(value)" in b and "u64" in res:
            res["usize"] = I64MAX
        b = body("take_small_usize")
        if "self.take_usize(key)?" in b and "ifvalue>u16::MAX.into(){" in b and "usize" in res:
            res["small_usize"] = 2**16 - 1
        b = body("take_limited_u8")
        if "self.take_u64(key)?" in b and "u8::try_from(value)" in b and "ifvalue>limit{" in b and "u64" in res:
            res["limited_u8"] = True
        return res

    # ---- reader
    def reader_of(self, field, ty, e):
        """Returns (key, rkind Coq term, info dict) for the initialiser expression of a Config field."""
        takes = re.findall(r"file\.take_(\w+?)(?:::<[^>]*>)?\(\s*\"([^\"]+)\"(?:,([0-9_]+))?,?\)", e)
        if len(takes) != 1:
            return None
        meth, key, lim = takes[0]
        call = re.search(r"file\.take_\w+(?:::<[^>]*>)?\(\"[^\"]+\"(?:,[0-9_]+)?,?\)\?", e).group(0)
        rest = e.replace(call, "@", 1)
        opt = ty.startswith("Option<")
        unk = (key, "RUnknown", {"why": "reader expression not recognised: " + e})
        if meth == "bool":
            m = re.fullmatch(r"\{?@\.unwrap_or\((\w+)\)\}?", rest)
            if m and ty == "bool":
                d = m.group(1)
                if d in self.consts:
                    d = self.consts[d][1]
                if d in ("true", "false"):
                    return key, "RBool %s" % d, {}
            return unk
        if meth in ("u64", "usize", "small_usize"):
            mx = self.helper_max.get(meth)
            if mx is None:
                return key, "RUnknown", {"why": "take_%s body not recognised" % meth}
            dur = "Duration" in ty
            if "Some(0)=>None" in rest:
                m = re.fullmatch(r"\{?match@\{Some\(0\)=>None,Some\((\w+)\)=>Some\((.+?)\),None=>(.+?),?\}\}?", rest)
                if m and opt:
                    v, conv, dflt = m.groups()
                    okconv = conv == ("Duration::from_secs(%s)" % v if dur else v)
                    d = self.optnum_of(dflt)
                    if okconv and d:
                        return key, "RZeroNum %d %s" % (mx, copt(d[1])), {}
                return unk
            if opt:
                if rest in ("{@.map(Duration::from_secs)}", "@.map(Duration::from_secs)") and dur:
                    return key, "ROptNum %d" % mx, {}
                if rest == "@" and not dur:
                    return key, "ROptNum %d" % mx, {}
                return unk
            # required number
            pats = [
                (r"\{?Duration::from_secs\(@\.unwrap_or\((\w+)\)\)\}?", True),
                (r"\{?@\.map\(Duration::from_secs\)\.unwrap_or\((\w+)\)\}?", True),
                (r"\{?@\.unwrap_or\((\w+)\)\}?", False),
            ]
            for p, isdur in pats:
                m = re.fullmatch(p, rest)
                if m and isdur == dur:
                    n = self.num_of(m.group(1))
                    if n is not None:
                        return key, "RNum %d (DN %d)" % (mx, n), {}
            if re.fullmatch(r"\{?@\.unwrap_or_else\(\|\|\{?Config::default_validation_threads\(\)\}?\)\}?", rest) \
                    and not dur:
                return key, "RNum %d DNproc" % mx, {}
            return unk
        if meth == "limited_u8":
            if rest == "@" and lim and self.helper_max.get("limited_u8") and ty == "Option<u8>":
                return key, "ROptNum %d" % min(int(lim), 255), {}
            return unk
        if meth == "string":
            m = re.fullmatch(r"\{?@\.unwrap_or_else\(\|\|\"([^\"]*)\"\.into\(\)\)\}?", rest)
            if m and ty == "String":
                return key, "RStr false (Some %s)" % cstr(m.group(1)), {}
            if rest == "@" and ty == "Option<String>":
                return key, "ROptStr false XNone", {}
            return unk
        if meth == "mandatory_path":
            return (key, "RStr true None", {}) if rest == "@" and ty == "PathBuf" else unk
        if meth == "path":
            return (key, "ROptStr true XNone", {}) if rest == "@" and ty == "Option<PathBuf>" else unk
        if meth == "from_str":
            if ty in ENUM_TYPES:
                m = re.fullmatch(r"\{?@\.unwrap_or\(([\w:]+)\)\}?", rest)
                if m:
                    d = m.group(1)
                    if d in self.consts:
                        d = self.consts[d][1]
                    mm = re.fullmatch(r"%s::(\w+)" % ty, d)
                    if mm:
                        en = self.enums[ty]
                        return key, "REnum %s %s %s" % (cbool(en["ci"]), cpairs(en["tbl"]), cstr(mm.group(1))), \
                            {"enum": ty}
                return unk
            if ty == "Option<IpAddr>" and rest == "@":
                return key, "ROptStr false XIp", {}
            return unk
        if meth == "string_array":
            if rest in ("{@.unwrap_or_default()}", "@.unwrap_or_default()") and ty == "Vec<String>":
                return key, "RArr false XNone false", {}
            if rest == "@" and ty == "Option<Vec<String>>":
                return key, "ROptArr", {}
            return unk
        if meth == "from_str_array":
            if rest in ("{@.unwrap_or_default()}", "@.unwrap_or_default()"):
                if ty == "Vec<PathBuf>":
                    return key, "RArr false XNone false", {}   # PathBuf::from_str is infallible and the identity
                if ty == "Vec<SocketAddr>":
                    return key, "RArr false XSock false", {}
            return unk
        if meth == "path_array":
            if rest in ("{@.unwrap_or_default()}", "@.unwrap_or_default()") and ty == "Vec<PathBuf>":
                return key, "RArr true XNone true", {}
            return unk
        if meth == "string_map":
            if rest in ("{@.unwrap_or_default()}", "@.unwrap_or_default()") and ty == "HashMap<String,String>":
                return key, "RPairs", {}
            return unk
        return unk

    def parse_reader(self):
        body = fn_body(self.src, r"fn\s+from_config_file\s*\(")
        rows = []          # (key, field, rkind, info)
        const_fields = []
        m = re.search(r"let\s+res\s*=\s*Config\s*\{", body)
        o, c = block_after(body, m.end() - 1)
        lit = body[o + 1:c]
        log_called = "Self::log_target_from_config_file(&mutfile)?" in norm(body[:m.start()])
        for part in split_top(lit):
            p = norm(part)
            mm = re.fullmatch(r"(\w+):(?!:)(.*)", p, flags=re.S)
            if not mm:
                if p == "log_target" and log_called:
                    rows.append(self.log_reader())
                else:
                    rows.append((None, p, "RUnknown", {"why": "field initialiser not recognised: " + p}))
                continue
            field, e = mm.group(1), mm.group(2)
            ty = self.fields.get(field, "?")
            r = self.reader_of(field, ty, e)
            if r is None:
                if "file.take_" in e:
                    rows.append((None, field, "RUnknown", {"why": "several take_ calls: " + e}))
                else:
                    const_fields.append((field, e))
                continue
            rows.append((r[0], field, r[1], r[2]))
        # take_ calls outside of the struct literal
        rest = norm(body[:m.start()] + body[c + 1:])
        for mm in re.finditer(r"file\.take_(\w+?)(?:::<[^>]*>)?\(\"([^\"]+)\"[^)]*\)\?(\.is_some\(\))?", rest):
            if mm.group(1) == "path" and mm.group(3):
                rows.append((mm.group(2), None, "RIgnore", {}))
            else:
                rows.append((mm.group(2), None, "RUnknown", {"why": "take_ call outside the Config literal"}))
        if "file.check_exhausted()?" not in rest:
            self.note("from_config_file no longer calls check_exhausted")
            rows.append(("<check_exhausted>", None, "RUnknown", {"why": "check_exhausted not called"}))
        # the log row goes first: log_target_from_config_file runs before the literal
        rows.sort(key=lambda r: 0 if r[1] == "log_target" else 1)
        return rows, const_fields

    def log_reader(self):
        b = fn_body(self.src, r"fn\s+log_target_from_config_file\s*\(")     # first definition = #[cfg(unix)]
        b = norm(b or "")
        en = self.enums["Facility"]
        m1 = re.search(r"letfacility=file\.take_string\(\"([^\"]+)\"\)\?;", b)
        m2 = re.search(r"letlog_target=file\.take_string\(\"([^\"]+)\"\)\?;", b)
        m3 = re.search(r"letlog_file=file\.take_path\(\"([^\"]+)\"\)\?;", b)
        shape = all(x in b for x in (
            '.unwrap_or("daemon");', "matchFacility::from_str(facility){Ok(value)=>value,Err(_)=>{",
            'matchlog_target.as_ref().map(AsRef::as_ref){Some("default")|None=>Ok(LogTarget::Default(facility)),'
            'Some("syslog")=>Ok(LogTarget::Syslog(facility)),Some("stderr")=>Ok(LogTarget::Stderr),'
            'Some("file")=>{matchlog_file{Some(file)=>Ok(LogTarget::File(file)),None=>{',
            "Some(value)=>{error!("))
        if not (m1 and m2 and m3 and shape and en["tbl"]):
            return ("log", "log_target", "RUnknown", {"why": "log_target_from_config_file not recognised"})
        return (m2.group(1), "log_target", "RLog %s %s %s" % (cstr(m1.group(1)), cstr(m3.group(1)), cpairs(en["tbl"])),
                {"aux": [m1.group(1), m3.group(1)]})

    # ---- printer
    def parse_printer(self):
        body = fn_body(self.src, r"pub\s+fn\s+to_toml\s*\(")
        res = {}     # key -> (pkind, info)
        sat_ok = False
        for st in statements(body):
            s = norm(st)
            s = s.rstrip(";")
            if s.startswith("fn"):
                if s.startswith("fninsert_int("):
                    sat_ok = s.endswith("{insert(table,key,value.try_into().unwrap_or(i64::MAX))}") \
                        and "value:implTryInto<i64>" in s
                continue
            if s.startswith("letmutres=") or s == "res":
                continue
            guard, field, inner = None, None, s
            m = re.fullmatch(r"ifletSome\((?:ref)?(\w+)\)=self\.(\w+)(?:\.as_ref\(\))?\{(.*)\}", s, flags=re.S)
            if m:
                guard, var, field, inner = "iflet", m.group(1), m.group(2), m.group(3).rstrip(";")
            else:
                m = re.fullmatch(r"if!self\.(\w+)\.is_empty\(\)\{(.*)\}", s, flags=re.S)
                if m:
                    guard, var, field, inner = "nonempty", None, m.group(1), m.group(2).rstrip(";")
            if s.startswith("matchself.log_target{"):
                k, pk, info = self.log_printer(s)
                res[k] = (pk, info)
                continue
            m = re.fullmatch(r"(insert|insert_int)\(&mutres,\"([^\"]+)\",(.*?),?\)", inner, flags=re.S)
            if not m:
                keys = re.findall(r"insert(?:_int)?\(&mutres,\"([^\"]+)\"", s)
                for k in keys:
                    res[k] = ("PUnknown", {"why": "statement not recognised: " + s})
                if not keys:
                    self.note("to_toml statement ignored: " + s[:120])
                continue
            fn, key, e = m.groups()
            if key in res:
                res[key] = ("PUnknown", {"why": "key printed twice"})
                continue
            res[key] = self.printer_of(fn, key, e, guard, field, var if guard else None)
        if not sat_ok:
            for k, (pk, info) in list(res.items()):
                if pk in ("PInt", "POptInt", "PZeroInt"):
                    res[k] = ("PUnknown", {"why": "insert_int body not recognised"})
        return res

    def printer_of(self, fn, key, e, guard, gfield, var):
        unk = ("PUnknown", {"why": "printer expression not recognised: %s(%s) guard=%s" % (fn, e, guard)})
        if guard:
            field = gfield
        else:
            fs = set(re.findall(r"self\.(\w+)", e))
            if len(fs) != 1:
                return unk
            field = fs.pop()
        ty = self.fields.get(field)
        if ty is None:
            return unk
        info = {"field": field}
        x = var if guard == "iflet" else None
        arr = e.count("toml::Value::Array(")
        if fn == "insert_int":
            dur = "Duration" in ty
            if guard == "iflet":
                want = "%s.as_secs()" % x if dur else x
                if e == want and ty.startswith("Option<"):
                    return "POptInt", info
                return unk
            if guard:
                return unk
            if ty.startswith("Option<"):
                if dur and re.fullmatch(
                        r"matchself\.%s\{(None=>0,Some\((\w+)\)=>\2\.as_secs\(\),?|Some\((\w+)\)=>\3\.as_secs\(\),None=>0,?)\}"
                        % field, e):
                    return "PZeroInt", info
                if not dur and e == "self.%s.unwrap_or(0)" % field:
                    return "PZeroInt", info
                return unk
            want = "self.%s.as_secs()" % field if dur else "self.%s" % field
            if e == want and (dur or ty in TYPE_MAX):
                return "PInt", info
            return unk
        # insert
        if arr:
            elem = r"toml::Value::from\((\w+)\.(?:display\(\)\.to_string\(\)|to_string\(\)|clone\(\))\)"
            src = x if guard == "iflet" else "self.%s" % field
            one = re.fullmatch(
                r"toml::Value::Array\(%s\.iter\(\)\.map\(\|(\w+)\|\{?%s\}?\)\.collect\(\)\)" % (re.escape(src), elem), e)
            if arr == 1 and one and one.group(1) == one.group(2):
                if guard == "iflet" and ty.startswith("Option<Vec<"):
                    return "POptArr", info
                if guard is None and ty.startswith("Vec<"):
                    return "PArr", info
                return unk
            pair = re.fullmatch(
                r"toml::Value::Array\(self\.%s\.iter\(\)\.map\(\|\((\w+),(\w+)\)\|\{toml::Value::Array\(\["
                r"toml::Value::from\(\1\.clone\(\)\),toml::Value::from\(\2\.clone\(\)\),?\]\.into_iter\(\)\.collect\(\)\)\}\)"
                r"\.collect\(\)\)" % field, e)
            if arr == 2 and pair and guard == "nonempty" and ty.startswith("HashMap<String,String>"):
                return "PPairsNE", info
            return unk
        if guard == "nonempty":
            return unk
        if guard == "iflet":
            if ty == "Option<u8>" and e == "i64::from(%s)" % x:
                return "POptInt", info        # an u8 always fits: same as insert_int
            if ty in ("Option<String>",) and e == "%s.clone()" % x:
                return "POptStr", info
            if ty == "Option<PathBuf>" and e == "%s.display().to_string()" % x:
                return "POptStr", info
            if ty == "Option<IpAddr>" and e == "%s.to_string()" % x:
                return "POptStr", info
            return unk
        if ty == "bool" and e == "self.%s" % field:
            return "PBool", info
        if ty == "String" and e == "self.%s.clone()" % field:
            return "PStr", info
        if ty == "PathBuf" and e == "self.%s.display().to_string()" % field:
            return "PStr", info
        if ty in ENUM_TYPES and e in ('format!("{}",self.%s)' % field, "self.%s.to_string()" % field):
            return "PEnum %s" % cpairs(self.enums[ty]["names"]), dict(info, enum=ty)
        return unk

    def log_printer(self, s):
        s = s.replace("#[cfg(unix)]", "")
        m = re.fullmatch(
            r"matchself\.log_target\{"
            r"LogTarget::Default\(facility\)=>\{insert\(&mutres,\"([^\"]+)\",\"default\"\);"
            r"insert\(&mutres,\"([^\"]+)\",facility_to_string\(facility\)\);\}"
            r"LogTarget::Syslog\(facility\)=>\{insert\(&mutres,\"([^\"]+)\",\"syslog\"\);"
            r"insert\(&mutres,\"([^\"]+)\",facility_to_string\(facility\)\);\}"
            r"LogTarget::Stderr=>\{insert\(&mutres,\"([^\"]+)\",\"stderr\"\);\}"
            r"LogTarget::File\(reffile\)=>\{insert\(&mutres,\"([^\"]+)\",\"file\"\);"
            r"insert\(&mutres,\"([^\"]+)\",file\.display\(\)\.to_string\(\)\);\}\}", s)
        if not m:
            return "log", "PUnknown", {"why": "match self.log_target not recognised"}
        k1, f1, k2, f2, k3, k4, lf = m.groups()
        if not (k1 == k2 == k3 == k4 and f1 == f2):
            return k1, "PUnknown", {"why": "inconsistent keys in match self.log_target"}
        return k1, "PLog %s %s %s" % (cstr(f1), cstr(lf), cpairs(self.enums["Facility"]["names"])), \
            {"field": "log_target", "aux": [f1, lf]}

    # ---- command line
    def parse_cli(self):
        res = {}      # field -> ckind
        def unknown(field, why):
            res[field] = "CUnknown"
            self.note("command line handling of %s not recognised: %s" % (field, why[:200]))
        for fname in ("apply_arg_matches", "apply_server_arg_matches"):
            body = fn_body(self.src, r"fn\s+%s\s*\(" % fname)
            for st in statements(body):
                s = norm(st).rstrip(";")
                if s == "self.apply_log_matches(&args,cur_dir)?":
                    lb = norm(fn_body(self.src, r"fn\s+apply_log_matches\s*\(") or "")   # first = #[cfg(unix)]
                    assigns = re.findall(r"self\.log_target=(.+?)(?=;|\})", lb)
                    ok = bool(assigns) and all(
                        a.startswith("LogTarget::Syslog(") or a in ("LogTarget::Stderr", "LogTarget::File(cur_dir.join(file))")
                        for a in assigns) and "Facility::from_str(facility)" in lb
                    res["log_target"] = "CLog" if ok else "CUnknown"
                    continue
                targets = set(re.findall(r"self\.(\w+)=(?!=)", s))
                if not targets:
                    continue
                if len(targets) != 1:
                    for t in targets:
                        unknown(t, s)
                    continue
                f = targets.pop()
                ty = self.fields.get(f, "?")
                if f in res:
                    unknown(f, "assigned by several statements")
                    continue
                m = re.fullmatch(r"ifargs\.(\w+)\{self\.%s=true;?\}" % f, s)
                if m:
                    a = self.args.get(m.group(1))
                    res[f] = "CFlag" if (a and a["type"] == "bool" and ty == "bool") else "CUnknown"
                    continue
                if f == "log_level":
                    assigns = re.findall(r"self\.log_level=([\w:]+)", s)
                    vs = [v for _, v in self.enums["LevelFilter"]["tbl"]]
                    if all(re.fullmatch(r"LevelFilter::(\w+)", a) and a.split("::")[1] in vs for a in assigns):
                        res[f] = "CEnum"
                    else:
                        unknown(f, s)
                    continue
                m = re.fullmatch(r"ifletSome\((\w+)\)=args\.(\w+)\{(.*)\}", s, flags=re.S)
                if not m:
                    unknown(f, s)
                    continue
                v, an, b = m.group(1), m.group(2), m.group(3).rstrip(";")
                a = self.args.get(an)
                if not a:
                    unknown(f, "no clap field " + an)
                    continue
                aty, amax = a["type"], a["max"]
                L = "self.%s=" % f
                kind = None
                num_ok = amax is not None
                dur = "Duration" in ty
                if b == L + v:
                    if ty in TYPE_MAX and aty == "Option<%s>" % ty and num_ok:
                        kind = "CNum %d" % amax
                    elif ty == "String" and aty == "Option<String>":
                        kind = "CStr false"
                    elif ty in ENUM_TYPES and aty == "Option<%s>" % ty and ty != "LevelFilter":
                        kind = "CEnum"
                    elif ty == "Vec<String>" and aty == "Option<Vec<String>>":
                        kind = "CList false XNone"
                    elif ty == "Vec<SocketAddr>" and aty == "Option<Vec<SocketAddr>>":
                        kind = "CList false XSock"
                elif b == L + "Some(%s)" % v:
                    if ty == aty and ty in ("Option<u8>", "Option<u16>", "Option<u32>", "Option<u64>", "Option<usize>") and num_ok:
                        kind = "COptNum %d" % amax
                    elif ty == aty == "Option<String>":
                        kind = "COptStr false XNone"
                    elif ty == aty == "Option<IpAddr>":
                        kind = "COptStr false XIp"
                elif b == L + "cur_dir.join(%s)" % v:
                    if ty == "PathBuf" and aty in ("Option<PathBuf>", "Option<String>"):
                        kind = "CStr true"
                elif b == L + "Some(cur_dir.join(%s))" % v:
                    if ty == "Option<PathBuf>" and aty in ("Option<PathBuf>", "Option<String>"):
                        kind = "COptStr true XNone"
                elif re.fullmatch(re.escape(L + v) + r"\.into_iter\(\)\.map\(\|(\w+)\|\{?cur_dir\.join\(\1\)\}?\)\.collect\(\)", b):
                    if ty == "Vec<PathBuf>" and aty == "Option<Vec<PathBuf>>":
                        kind = "CList true XNone"
                elif b == L + "Duration::from_secs(%s)" % v:
                    if ty == "Duration" and aty == "Option<u64>" and num_ok:
                        kind = "CNum %d" % amax
                elif b == L + "Some(Duration::from_secs(%s))" % v:
                    if ty == "Option<Duration>" and aty == "Option<u64>" and num_ok:
                        kind = "COptNum %d" % amax
                elif b == L + "if%s==0{None}else{Some(Duration::from_secs(%s))}" % (v, v):
                    if ty == "Option<Duration>" and aty == "Option<u64>" and num_ok:
                        kind = "CZeroNum %d" % amax
                elif b == "if%s==0{%sNone;?}else{%sSome(%s);?}".replace(";?", "") % (v, L, L, v) or \
                        re.fullmatch(r"if%s==0\{%sNone;?\}else\{%sSome\(%s\);?\}" % (v, re.escape(L), re.escape(L), v), b):
                    if ty == aty and ty in ("Option<u64>", "Option<usize>") and num_ok:
                        kind = "CZeroNum %d" % amax
                if kind is None:
                    unknown(f, s)
                else:
                    res[f] = kind
        return res

    # ---- all together
    def table(self):
        reader_rows, const_fields = self.parse_reader()
        printers = self.parse_printer()
        cli = self.parse_cli()
        rows = []
        seen = set()
        for key, field, rk, info in reader_rows:
            if key is None:
                key = "<%s>" % field
            pk, pinfo = printers.get(key, ("PNone", {}))
            if pk != "PNone" and pinfo.get("field") not in (None, field):
                pk, pinfo = "PUnknown", {"why": "printed from field %s but read into %s" % (pinfo.get("field"), field)}
            ck = cli.get(field, "CNone") if field else "CNone"
            rows.append({"key": key, "field": field, "printer": pk, "reader": rk, "cli": ck,
                         "why": [x for x in (info.get("why"), pinfo.get("why")) if x]})
            seen.add(key)
            for k in info.get("aux", []):
                seen.add(k)
        for key, (pk, pinfo) in printers.items():
            if key not in seen:
                rows.append({"key": key, "field": pinfo.get("field"), "printer": pk, "reader": "RUnknown", "cli": "CNone",
                             "why": ["printed by to_toml but never read by from_config_file"]})
        cli_only = sorted(f for f in cli if f not in {r["field"] for r in rows})
        return rows, const_fields, cli_only


def emit(rows, ex, const_fields, cli_only):
    os.makedirs(OUT, exist_ok=True)
    os.makedirs(WORK, exist_ok=True)
    for f in ("Table.vo", "TableOk.vo", "Table.vos", "TableOk.vos", "Table.vok", "TableOk.vok", "Table.glob", "TableOk.glob"):
        try:
            os.remove(os.path.join(OUT, f))
        except FileNotFoundError:
            pass
    lines = ["(* GENERATED by lib/c35_extract.py from %s (sha256 %s). Do not edit. *)" % (SRC, ex.sha),
             "From Coq Require Import List NArith ZArith Bool String.",
             "From RV Require Export C35.Spec.",
             "Import ListNotations.",
             "Local Open Scope string_scope.",
             "Local Open Scope N_scope.",
             "",
             "Definition the_table : table := ["]
    body = []
    for r in rows:
        body.append("  (* %s *)\n  {| r_key := %s; r_printer := %s;\n     r_reader := %s;\n     r_cli := %s |}" % (
            (r["field"] or "-"), cstr(r["key"]), r["printer"], r["reader"], r["cli"]))
    lines.append(";\n".join(body))
    lines.append("].")
    lines.append("")
    open(os.path.join(OUT, "Table.v"), "w").write("\n".join(lines))
    ok = """(* GENERATED by lib/c35_extract.py. Do not edit.
   The coherence of the table extracted from the current src/config.rs, by computation, and the
   generic theorems of C35/Property.v instantiated with it. *)
From Coq Require Import List NArith ZArith Bool String.
From RV Require Export C35.Property _cases.C35T.Table.
Import ListNotations.

Theorem C35_table_coherent : table_okb false the_table = true.
Proof. vm_compute. reflexivity. Qed.

Theorem C35_concrete_roundtrip : forall e vs,
  conf_dom e the_table vs = true -> conf_small vs = true ->
  read e the_table (print_rows the_table vs) = Some vs.
Proof. intros e vs Hd Hs. exact (C35_roundtrip e the_table vs C35_table_coherent Hd Hs). Qed.

Theorem C35_concrete_satisfies_spec : forall e vs,
  conf_dom e the_table vs = true -> conf_small vs = true ->
  spec_okb vs (model_obs e the_table vs) = true.
Proof. intros e vs Hd Hs. exact (C35_model_satisfies_spec e the_table vs C35_table_coherent Hd Hs). Qed.
"""
    open(os.path.join(OUT, "TableOk.v"), "w").write(ok)
    json.dump({"source": SRC, "sha256": ex.sha, "rows": rows, "constant_fields": const_fields,
               "cli_only_fields": cli_only, "notes": ex.notes},
              open(os.path.join(WORK, "table.json"), "w"), indent=1)


def sh(cmd, cwd=None, timeout=1500):
    p = subprocess.run(cmd, cwd=cwd, stdout=subprocess.PIPE, stderr=subprocess.STDOUT, text=True, timeout=timeout)
    return p.returncode, p.stdout


def build():
    rc, out = sh(["sh", "gen_project.sh"], cwd=COQ)
    if rc:
        print("ERROR gen_project.sh:", out)
        return 2
    rc, out = sh(["make", "-j8", "C35/Property.vo"], cwd=COQ)
    if rc:
        # not this script's business: ./check reports the proofs as failed
        print("c35_extract: generic theory does not build:\n" + out[-2000:])
        return 0
    rc, out = sh(["coqc", "-noglob", "-Q", COQ, "RV", os.path.join(OUT, "Table.v")])
    if rc:
        print("ERROR generated Table.v does not compile:\n" + out[-3000:])
        return 2
    probe = os.path.join(OUT, "Probe.v")
    open(probe, "w").write("From Coq Require Import String List.\nFrom RV Require Import _cases.C35T.Table.\n"
                           "Import ListNotations.\nOpen Scope string_scope.\n"
                           "Eval vm_compute in (bad_rows false the_table, bad_rows true the_table, "
                           "snodupb (table_keys the_table)).\n")
    rc, out = sh(["coqc", "-noglob", "-Q", COQ, "RV", probe])
    print("c35_extract: (rows incoherent even outside the known class, rows incoherent strictly, keys distinct) =")
    print(out.strip())
    json.dump({"probe": out.strip()}, open(os.path.join(WORK, "table_probe.json"), "w"))
    rc, out = sh(["coqc", "-noglob", "-Q", COQ, "RV", os.path.join(OUT, "TableOk.v")])
    if rc:
        print("c35_extract: TABLE NOT COHERENT (TableOk.v rejected):\n" + out[-1500:])
    else:
        print("c35_extract: table coherent, concrete theorems checked")
    return 0


def main():
    ex = Extract(SRC)
    rows, const_fields, cli_only = ex.table()
    emit(rows, ex, const_fields, cli_only)
    print("c35_extract: %d rows from %s; constant fields: %s; command-line-only fields: %s" % (
        len(rows), SRC, ",".join(f for f, _ in const_fields), ",".join(cli_only)))
    for n in ex.notes:
        print("c35_extract: note:", n)
    for r in rows:
        if "Unknown" in r["printer"] + r["reader"] + r["cli"]:
            print("c35_extract: unrecognised:", r["key"], r["why"])
    if "--print" in sys.argv:
        for r in rows:
            print("%-26s %-12s | %-40s | %s" % (r["key"], r["printer"][:12], r["reader"][:40], r["cli"]))
    if "--build" in sys.argv:
        return build()
    return 0


if __name__ == "__main__":
    try:
        sys.exit(main())
    except Exception:
        import traceback
        traceback.print_exc()
        print("ERROR c35_extract failed")
        sys.exit(2)
